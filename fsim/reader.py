"""Second party for the serialization machine: a fresh interpreter (other
PYTHONHASHSEED) that loads documents written elsewhere.  stdin: {"docs": {i:
text}}; stdout: {i: {"canon", "redump", "invoked"} | {"error"}}."""
import json
import sys

from fsim import worker


def main():
  worker.quiet_logging()
  job = json.loads(sys.stdin.read())
  from fiddle._src.experimental import serialization
  from fsim import canon as C
  from fsim import stubs
  from machines.build import BUILD_STUBS
  rec = stubs.reset()
  stubs.install(BUILD_STUBS)
  out = {}
  for i, doc in job['docs'].items():
    n = len(rec.log)
    try:
      back = serialization.load_json(doc)
      out[i] = {'canon': C.canon(back), 'redump': serialization.dump_json(back),
                'invoked': len(rec.log) - n}
    except Exception as e:  # pylint: disable=broad-except
      out[i] = {'error': f'{type(e).__name__}: {e}'}
  sys.stdout.write(json.dumps(out))


if __name__ == '__main__':
  main()
