"""Real module that hosts the per-run stub callables (so pyrefs resolve) and the
static harness classes (tags, results).  Stubs are (re)bound here by
fsim.stubs.install(); nothing in this module draws random numbers.
"""
from __future__ import annotations

import dataclasses  # noqa: F401  (used by generated source)
import functools  # noqa: F401

from fiddle._src import tag_type
from fiddle._src import tagging


class Rec:
  """What a stub callable returns: which stub ran and with which bound args."""
  __slots__ = ('stub', 'args', 'serial', '__weakref__')

  def __init__(self, stub, args, serial):
    self.stub = stub
    self.args = args
    self.serial = serial

  def __repr__(self):
    return f'<Rec {self.stub}#{self.serial}>'


class StubObj:
  """Base of class-kind stubs; the instance carries its Rec as _fsim_rec."""
  _fsim_rec = None

  def __repr__(self):
    return f'<StubObj {type(self).__name__}>'


class DetTagType(tag_type.TagType):
  """Tag metaclass whose hash does not depend on object addresses.

  fiddle iterates over tag *sets* with early exit; with id-based hashes the
  iteration order would depend on where the class objects were allocated.
  """

  def __hash__(cls):
    return cls.__dict__.get('_fsim_hash', 7)


class T0(tagging.Tag, metaclass=DetTagType):
  """tag T0."""
  _fsim_hash = 1001


class T1(T0):
  """tag T1, a subclass of T0."""
  _fsim_hash = 2002


class T2(T1):
  """tag T2, a subclass of T1."""
  _fsim_hash = 3003


class U0(tagging.Tag, metaclass=DetTagType):
  """tag U0, unrelated."""
  _fsim_hash = 4004


class U1(tagging.Tag, metaclass=DetTagType):
  """tag U1, unrelated."""
  _fsim_hash = 5005


TAGS = {'T0': T0, 'T1': T1, 'T2': T2, 'U0': U0, 'U1': U1}
TAG_NAMES = {v: k for k, v in TAGS.items()}
# name -> names of all superclasses that are tags (inclusive)
TAG_SUPERS = {
    'T0': {'T0'}, 'T1': {'T1', 'T0'}, 'T2': {'T2', 'T1', 'T0'},
    'U0': {'U0'}, 'U1': {'U1'},
}
