"""Real module that hosts the per-run stub callables (so pyrefs resolve) and the
static harness classes (tags, results).  Stubs are (re)bound here by
fsim.stubs.install(); nothing in this module draws random numbers.
"""
from __future__ import annotations

import dataclasses  # noqa: F401  (used by generated source)
import typing  # noqa: F401  (annotations of generated stubs)
import functools  # noqa: F401

from fiddle._src import tag_type
from fiddle._src import tagging


class Rec:
  """What a stub callable returns: which stub ran and with which bound args."""
  __slots__ = ('stub', 'args', 'serial', '__weakref__')

  def __init__(self, stub, args, serial):
    self.stub = stub
    self.args = args
    self.serial = serial

  def __repr__(self):
    return f'<Rec {self.stub}>'


class StubObj:
  """Base of class-kind stubs; the instance carries its Rec as _fsim_rec."""
  _fsim_rec = None

  def __repr__(self):
    return f'<StubObj {type(self).__name__}>'


class DetTagType(tag_type.TagType):
  """Tag metaclass whose hash does not depend on object addresses.

  fiddle iterates over tag *sets* with early exit; with id-based hashes the
  iteration order would depend on where the class objects were allocated.
  """

  def __hash__(cls):
    return cls.__dict__.get('_fsim_hash', 7)


class T0(tagging.Tag, metaclass=DetTagType):
  """tag T0."""
  _fsim_hash = 1001


class T1(T0):
  """tag T1, a subclass of T0."""
  _fsim_hash = 2002


class T2(T1):
  """tag T2, a subclass of T1."""
  _fsim_hash = 3003


class U0(tagging.Tag, metaclass=DetTagType):
  """tag U0, unrelated."""
  _fsim_hash = 4004


class U1(tagging.Tag, metaclass=DetTagType):
  """tag U1, unrelated."""
  _fsim_hash = 5005


TAGS = {'T0': T0, 'T1': T1, 'T2': T2, 'U0': U0, 'U1': U1}
TAG_NAMES = {v: k for k, v in TAGS.items()}
# name -> names of all superclasses that are tags (inclusive)
TAG_SUPERS = {
    'T0': {'T0'}, 'T1': {'T1', 'T0'}, 'T2': {'T2', 'T1', 'T0'},
    'U0': {'U0'}, 'U1': {'U1'},
}


# ---------------------------------------------------------------------------
# exception shapes for the failing-callable fault (C05)
# ---------------------------------------------------------------------------
class E_CustomInit(Exception):
  def __init__(self, a, b):
    super().__init__(a, b)
    self.a, self.b = a, b


class E_KwOnlyInit(Exception):
  def __init__(self, *, code):
    super().__init__(f'code {code}')
    self.code = code


class E_StrOverride(Exception):
  def __str__(self):
    return 'custom-str-of-exception'


class E_Slots(Exception):
  __slots__ = ('x',)


class E_Sub(ValueError):
  """Subclass with extra attribute."""

  def __init__(self, msg, extra=None):
    super().__init__(msg)
    self.extra = extra


class B_Base(BaseException):
  pass


class E_NoSubclassHook(Exception):
  def __init_subclass__(cls, **kw):
    raise TypeError('E_NoSubclassHook cannot be subclassed')


class E_TransientHook(Exception):
  """Refuses to be subclassed ONCE (e.g. a plugin registry that is not ready
  yet), later it does not mind."""
  armed = [True]

  def __init_subclass__(cls, **kw):
    if E_TransientHook.armed[0]:
      E_TransientHook.armed[0] = False
      raise TypeError('E_TransientHook: registry not initialised yet')
    super().__init_subclass__(**kw)


class _FinalMeta(type):
  def __new__(mcs, name, bases, ns, **kw):
    for b in bases:
      if isinstance(b, _FinalMeta):
        raise TypeError(f'{b.__name__} is final')
    return super().__new__(mcs, name, bases, ns)


class E_FinalMeta(Exception, metaclass=_FinalMeta):
  pass


# two distinct exception classes that share module and (qual)name
TwinA = type('TwinError', (ValueError,), {'__module__': __name__})
TwinB = type('TwinError', (ValueError,), {'__module__': __name__})
_twin_turn = [0]


def make_exception(shape, tag):
  """Returns (exception instance, expectation class).

  expectation: 'full' (proxy with Fiddle context required) or a degraded shape
  name for which the code is known to re-raise the bare original.
  """
  m = f'boom-{tag}'
  if shape == 'Twin':
    _twin_turn[0] += 1
    return (TwinA if _twin_turn[0] % 2 else TwinB)(m), 'full'
  table = {
      'ValueError': lambda: (ValueError(m), 'full'),
      'KeyError': lambda: (KeyError(m), 'full'),
      'OSError': lambda: (OSError(2, m), 'full'),
      'UnicodeDecodeError': lambda: (
          UnicodeDecodeError('utf-8', b'\xff' + m.encode(), 0, 1, 'bad'), 'full'),
      'CustomInit': lambda: (E_CustomInit(m, 7), 'full'),
      'KwOnlyInit': lambda: (E_KwOnlyInit(code=m), 'full'),
      'StrOverride': lambda: (E_StrOverride(m), 'full'),
      'Slots': lambda: (E_Slots(m), 'full'),
      'Sub': lambda: (E_Sub(m, extra=3), 'full'),
      'StopIteration': lambda: (StopIteration(m), 'full'),
      'StopAsyncIteration': lambda: (StopAsyncIteration(m), 'full'),
      'AssertionError': lambda: (AssertionError(m), 'full'),
      # classes that calling code likes to catch for its own purposes
      # (signature probing, attribute fallbacks, optional imports, ...)
      'TypeError': lambda: (TypeError(m), 'full'),
      'AttributeError': lambda: (AttributeError(m), 'full'),
      'RuntimeError': lambda: (RuntimeError(m), 'full'),
      'NotImplementedError': lambda: (NotImplementedError(m), 'full'),
      'ImportError': lambda: (ImportError(m), 'full'),
      'RecursionError': lambda: (RecursionError(m), 'full'),
      'B_Base': lambda: (B_Base(m), 'base-exception'),
      'SystemExit': lambda: (SystemExit(m), 'base-exception'),
      'GeneratorExit': lambda: (GeneratorExit(m), 'base-exception'),
      'KeyboardInterrupt': lambda: (KeyboardInterrupt(m), 'base-exception'),
      'NoSubclassHook': lambda: (E_NoSubclassHook(m), 'unsubclassable'),
      # refuses only the FIRST attempt to subclass it
      'TransientHook': lambda: (E_TransientHook(m),
                                'unsubclassable' if E_TransientHook.armed[0] else 'full'),
      'FinalMeta': lambda: (E_FinalMeta(m), 'unsubclassable'),
  }
  return table[shape]()


EXC_SHAPES = ['ValueError', 'KeyError', 'OSError', 'UnicodeDecodeError',
              'CustomInit', 'KwOnlyInit', 'StrOverride', 'Slots', 'Sub',
              'StopIteration', 'StopAsyncIteration', 'AssertionError', 'Twin',
              'TypeError', 'AttributeError', 'RuntimeError',
              'NotImplementedError', 'ImportError', 'RecursionError',
              'B_Base', 'SystemExit', 'GeneratorExit', 'KeyboardInterrupt',
              'NoSubclassHook', 'FinalMeta', 'TransientHook']


class HostileReprBase(BaseException):
  pass


import collections as _collections

NT = _collections.namedtuple('NT', ['a', 'b'])


class Hostile:
  """Argument whose repr() fails while the diagnostic is being formatted.

  mode is set per run by the machine: None (benign), 'exc', 'base'.
  """
  mode = None
  fired = 0

  def __repr__(self):
    if Hostile.mode == 'exc':
      Hostile.fired += 1
      raise RuntimeError('hostile __repr__')
    if Hostile.mode == 'base':
      Hostile.fired += 1
      raise HostileReprBase('hostile __repr__ (BaseException)')
    return '<Hostile>'


class TempBox:
  """User-registered node type whose flatten manufactures temporaries.

  flatten wraps every child in a fresh list / dict / tuple; unflatten unwraps
  them again.  An identity-keyed memo that does not pin its keys will see the
  ids of those temporaries recycled.
  """

  def __init__(self, children):
    self.children = list(children)

  def __repr__(self):
    return f'TempBox({self.children!r})'

  def __getitem__(self, i):
    # mirrors _tempbox_flatten: a path through a TempBox goes through the
    # wrapper that flatten puts around child i
    c = self.children[i]
    return [c] if i % 3 == 0 else ({'c': c} if i % 3 == 1 else (c, []))


def _tempbox_flatten(box):
  wrapped = []
  for i, c in enumerate(box.children):
    if i % 3 == 0:
      wrapped.append([c])
    elif i % 3 == 1:
      wrapped.append({'c': c})
    else:
      wrapped.append((c, []))
  return tuple(wrapped), len(wrapped)


def _tempbox_unflatten(values, meta):
  out = []
  for i, v in enumerate(values):
    if i % 3 == 0:
      out.append(v[0])
    elif i % 3 == 1:
      out.append(v['c'])
    else:
      out.append(v[0])
  return TempBox(out)


class LateBox:
  """A container type whose daglish traverser is registered LATE: only after a
  first traversal has already met it as an opaque leaf."""

  def __init__(self, children):
    self.children = list(children)

  def __repr__(self):
    return f'LateBox({self.children!r})'

  def __getitem__(self, i):
    return self.children[i]


def register_latebox():
  from fiddle._src import daglish
  daglish.register_node_traverser(
      LateBox, flatten_fn=lambda b: (tuple(b.children), None),
      unflatten_fn=lambda values, _: LateBox(values),
      path_elements_fn=lambda b: tuple(daglish.Index(i)
                                       for i in range(len(b.children))))


def _register_tempbox():
  from fiddle._src import daglish
  daglish.register_node_traverser(
      TempBox, flatten_fn=_tempbox_flatten, unflatten_fn=_tempbox_unflatten,
      path_elements_fn=lambda b: tuple(daglish.Index(i)
                                       for i in range(len(b.children))))


_register_tempbox()


# ---------------------------------------------------------------------------
# leaf / node types for the serialization machine (C09)
# ---------------------------------------------------------------------------
import enum as _enum


class Color(_enum.Enum):
  RED = 1
  GREEN = 'g'
  BLUE = (3, 4)


class Level(_enum.IntEnum):
  LOW = 1
  HIGH = 404


class Mode(str, _enum.Enum):
  FAST = 'fast'
  SLOW = 'slow'


class Perm(_enum.IntFlag):
  R = 4
  W = 2


PRIM_INT = 7          # plain primitives that somebody tries (and fails) to
PRIM_STR = 'seven'    # register as serialization constants


class MyInt(int):
  pass


class MyStr(str):
  pass


class Shape:
  def __init__(self, n=0):
    self.n = n

  @classmethod
  def regular(cls, n=3):
    return cls(n)

  def describe(self, prefix=''):
    return prefix + type(self).__name__


class Triangle(Shape):
  pass


SHAPE_OBJ = Shape(5)


class Plain:
  """A dict-based object registered with register_dict_based_object."""
  _fsim_plain = True

  def __init__(self, **kw):
    self.__dict__.update(kw)


class HalfCopyable:
  """A value whose deep copy / pickling FAILS PART-WAY (it holds a lock), after
  the copying machinery has already noted a half-made stand-in for it."""
  _fsim_plain = True

  def __init__(self, tok):
    import _thread
    self.tok = tok
    self.items = [tok]
    self.lock = _thread.allocate_lock()

  def __repr__(self):
    return f'<HalfCopyable {self.__dict__.get("tok")}>'


class RHSFailure(Exception):
  pass


class FailingList(list):
  """A sequence with correct len() and indexing whose ITERATION raises after
  `ok` items (user code failing part-way through an assignment's right-hand
  side)."""

  def __init__(self, items, ok):
    super().__init__(items)
    self._ok = ok

  def __iter__(self):
    for i in range(len(self)):
      if i >= self._ok:
        raise RHSFailure(f'right-hand side fails after {self._ok} item(s)')
      yield self[i]


class DefaultObj:
  """A parameter default that is an opaque object (compared by identity)."""
  _fsim_plain = True

  def __init__(self):
    self.what = 'default-object'


DEFAULT_OBJ = DefaultObj()
DEFAULT_LIST = ['default-list-item']


class ConstObj:
  """An opaque constant registered with register_constant (by identity)."""

  def __repr__(self):
    return '<ConstObj>'


CONST_OBJ = ConstObj()


def denied_fn(*a, **k):
  """A function the restrictive policy refuses."""
  raise AssertionError('denied_fn must never be called')


class EqHostile(Plain):
  """A dict-based object whose comparison operators refuse foreign operands
  (like array types do)."""

  def __eq__(self, other):
    if not isinstance(other, EqHostile):
      raise TypeError('EqHostile can only be compared with its own kind')
    return self is other

  def __ne__(self, other):
    if not isinstance(other, EqHostile):
      raise TypeError('EqHostile can only be compared with its own kind')
    return self is not other

  __hash__ = object.__hash__


def _register_serialization():
  from fiddle._src.experimental import serialization
  serialization.register_dict_based_object(Plain)
  serialization.register_dict_based_object(EqHostile)
  serialization.register_constant('fsim.stubmod', 'CONST_OBJ',
                                  compare_by_identity=True)


_register_serialization()


# ---------------------------------------------------------------------------
# base configs and fiddlers for the flags machine (C18); resolved by name
# through FiddleFlag(default_module=<this module>)
# ---------------------------------------------------------------------------
def build_from_spec(spec):
  """Literal spec -> value.  ['cfg', fn, [args], {kwargs}] | ['partial', ...] |
  ['list', [..]] | ['tuple', [..]] | ['dict', [[k, v], ..]] | ['leaf', literal]
  """
  import fiddle as fdl
  import sys
  kind = spec[0]
  if kind == 'leaf':
    return spec[1]
  if kind == 'list':
    return [build_from_spec(s) for s in spec[1]]
  if kind == 'tuple':
    return tuple(build_from_spec(s) for s in spec[1])
  if kind == 'dict':
    return {k: build_from_spec(v) for k, v in spec[1]}
  if kind in ('cfg', 'partial'):
    fn = getattr(sys.modules[__name__], spec[1])
    cls = fdl.Config if kind == 'cfg' else fdl.Partial
    return cls(fn, *[build_from_spec(s) for s in spec[2]],
               **{k: build_from_spec(v) for k, v in spec[3].items()})
  raise ValueError(spec)


def base_gen(spec, z=0):
  cfg = build_from_spec(spec)
  cfg.z = z
  return cfg


def z0():
  """Argument-less factory: a fresh object per invocation."""
  return Rec('z0', {}, 0)


def fid_scale(cfg, k=2):
  """Mutating fiddler that does not commute with set:z=..."""
  cfg.z = cfg.z * k + 1


def _fid_scale_v2(cfg, k=2):
  """What `fid_scale` is REBOUND to by a 'rebind' step (same name, new code)."""
  cfg.z = cfg.z * k + 100


def rebind_fid_scale():
  """The module attribute `fid_scale` now names another function."""
  g = globals()
  g['fid_scale'], g['_fid_scale_v2'] = g['_fid_scale_v2'], g['fid_scale']


def lazy_proto(uid, x='d_x'):
  """Stand-in that documents are written with before they are retargeted to
  fsim.lazy_k.make."""
  return ('proto', uid, x)


def lazy_pause():
  """Explicit pre-emption points inside a module body that is being imported."""
  from fsim import simlock
  sc = simlock.CURRENT
  if sc is not None and sc.thread_id() >= 0:
    for _ in range(3):
      sc.pause(3)


def moved_fn(uid, x='d_x'):
  """Deprecated stand-in; the real one lives in fsim.stubmod_new after the
  migration (see machines/serial.py)."""
  return ('old', uid, x)


def fid_record(cfg, *a, **k):
  """Records the arguments its call expression was parsed into."""
  cfg.y = [list(a), sorted(k.items())]


def fid_replace(cfg, v):
  """Fiddler that returns a replacement instead of mutating."""
  import copy
  new = copy.deepcopy(cfg)
  new.z = (new.z, v)
  return new


def fid_push(cfg, item):
  cur = cfg.y if isinstance(cfg.y, list) else []
  cfg.y = list(cur) + [item]
