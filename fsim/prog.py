"""Operation programs over a thread's own configurations (used by the threads,
history, heap and tags machines).  One op = one JSON descriptor; config indices
are taken modulo the number of live configs so a descriptor stays meaningful
when its predecessors are deleted by the shrinker.

All fiddle API calls for ops happen in THIS file, so history Locations of
direct edits must name this file (C16's location clause).
"""
from __future__ import annotations

import copy
import os
import pickle

import fiddle as fdl
from fiddle import history as fdl_history
from fiddle._src import tagging as fdl_tagging
from fiddle._src import mutate_buildable
from fiddle._src import materialize
from fiddle._src import daglish
from fiddle.experimental import serialization

from fsim import canon as C
from fsim import model as M
from fsim import stubmod

OPSITE_FILE = __file__
VA = 'VA'


def real_key(k):
  if k == VA:
    return fdl.VARARGS
  if isinstance(k, dict):
    a, b, c = (fdl.VARARGS if e == VA else e for e in k['slice'])
    return slice(a, b, c)
  return k


def hist_value(v):
  if v is fdl_history.DELETED:
    return 'DELETED'
  if isinstance(v, frozenset):
    return {'tags': sorted(C.tag_name(t) for t in v)}
  return C.canon(v, with_tags=False)


def history_obs(cfg):
  """Canonical view of cfg.__argument_history__ (sequence ids -> ranks)."""
  entries = []
  for key, lst in cfg.__argument_history__.items():
    for pos, e in enumerate(lst):
      entries.append((e.sequence_id, C.key_repr(key), pos, e))
  order = {id(e): r for r, (_, _, _, e) in enumerate(sorted(entries, key=lambda t: t[0]))}
  out = {}
  for _, key, pos, e in entries:
    out.setdefault(key, []).append(
        [order[id(e)], e.kind.name, hist_value(e.new_value),
         os.path.basename(e.location.filename), e.location.function_name,
         e.location.line_number])
  return [[k, out[k]] for k in sorted(out)]


class Env:
  """One (simulated) thread's world."""

  def __init__(self, tid, fns, sched=None, exc_class=None):
    self.tid = tid
    self.fns = fns
    self.mk = M.Maker('impl', fns)
    self.cfgs = []
    self.obs = []
    self.suspend = []     # entered suspend_tracking() context managers
    self.sched = sched
    self.exc_class = exc_class
    self.seen_entries = set()
    self.keep_entries = []
    self.keep_alive = []
    self.seq_batches = []  # per op: sorted sequence ids of entries it created
    self.own_violations = []
    self.tracking_off = False   # set_tracking(False) was called and never undone

  def cfg(self, op, field='c'):
    if not self.cfgs:
      return None
    return self.cfgs[op.get(field, 0) % len(self.cfgs)]

  def new_entries(self):
    """Sequence ids of history entries that appeared since the last call."""
    batch = []
    for cfg in self.cfgs:
      for lst in cfg.__argument_history__.values():
        for e in lst:
          if id(e) not in self.seen_entries:
            self.seen_entries.add(id(e))
            self.keep_entries.append(e)
            batch.append(e.sequence_id)
    return batch


def apply_op(env: Env, op):
  """Executes op; returns its observation (JSON-able, canonical)."""
  k = op['op']
  mk = env.mk
  if k == 'new':
    cls = {'Config': fdl.Config, 'Partial': fdl.Partial}[op.get('btype', 'Config')]
    args = [mk(a) for a in op.get('args', [])]
    kwargs = {n: mk(v) for n, v in op.get('kwargs', {}).items()}
    cfg = cls(env.fns[op['fn']], *args, **kwargs)
    env.cfgs.append(cfg)
    return C.canon(cfg)
  if k == 'temp':
    # a short-lived configuration of a callable that nothing else configures:
    # whatever is cached per callable comes and goes with it
    c = fdl.Config(env.fns[op['fn']], uid=op['uid'], x=op.get('x', 0))
    out = C.canon(c)
    del c
    return out
  if k in ('late_touch', 'register_late', 'late_touch_observed'):
    # a container type that gets its traverser registered while the threads
    # run: before that it is an opaque leaf, afterwards it is traversed
    if k == 'register_late':
      stubmod.register_latebox()
    c = fdl.Config(env.fns['n0'], uid=op['uid'],
                   x=stubmod.LateBox([fdl.Config(env.fns['n0'], uid=op['uid'] + 1)]))
    try:
      out = C.canon(fdl.build(c))
    except Exception as e:  # pylint: disable=broad-except
      out = C.canon_exc(e)
    # whether `late_touch` came before or after the registration is a matter of
    # order and both are fine; what a thread sees AFTER registering is not
    return 'order-dependent' if k == 'late_touch' else out
  if k == 'tracking_off':
    # the thread switches history tracking off for good (and ends like that)
    fdl_history.set_tracking(enabled=False)
    env.tracking_off = True
    return fdl_history.tracking_enabled()
  if k == 'tvalue':
    # a stand-alone TaggedValue (Tag.new): a small configuration made and dropped
    tv = stubmod.TAGS[op['tag']].new(op['v'])
    return C.canon(tv)
  if k == 'suspend_enter':
    if len(env.suspend) >= 2:
      return 'skip'
    cm = fdl_history.suspend_tracking()
    cm.__enter__()
    env.suspend.append(cm)
    return fdl_history.tracking_enabled()
  if k == 'suspend_exit':
    if not env.suspend:
      return 'skip'
    env.suspend.pop().__exit__(None, None, None)
    return fdl_history.tracking_enabled()
  cfg = env.cfg(op)
  if cfg is None:
    return 'skip'
  if k == 'setattr':
    setattr(cfg, op['name'], mk(op['v']))
    return C.canon(cfg)
  if k == 'delattr':
    delattr(cfg, op['name'])
    return C.canon(cfg)
  if k == 'setitem':
    if 'vs' in op:
      cfg[real_key(op['key'])] = [mk(v) for v in op['vs']]
    else:
      cfg[real_key(op['key'])] = mk(op['v'])
    return C.canon(cfg)
  if k == 'delitem':
    del cfg[real_key(op['key'])]
    return C.canon(cfg)
  if k == 'build':
    return C.canon(fdl.build(cfg))
  if k == 'deepcopy':
    new = copy.deepcopy(cfg)
    env.cfgs.append(new)
    return C.canon((cfg, new))
  if k == 'copy':
    new = copy.copy(cfg)
    env.cfgs.append(new)
    return C.canon((cfg, new))
  if k == 'pickle':
    new = pickle.loads(pickle.dumps(cfg))
    env.cfgs.append(new)
    # unpickled entries are copies of existing ones (same sequence ids)
    for lst in new.__argument_history__.values():
      for e in lst:
        env.seen_entries.add(id(e))
        env.keep_alive.append(e)
    return C.canon((cfg, new))
  if k == 'eq':
    other = env.cfg(op, 'd')
    return [cfg == other, cfg != other]
  if k == 'json':
    s = serialization.dump_json(cfg)
    back = serialization.load_json(s)
    return [C.norm_text(s), C.canon(back)]
  if k == 'history':
    return history_obs(cfg)
  if k == 'add_tag':
    fdl_tagging.add_tag(cfg, op['arg'], stubmod.TAGS[op['tag']])
    return C.canon(cfg)
  if k == 'remove_tag':
    fdl_tagging.remove_tag(cfg, op['arg'], stubmod.TAGS[op['tag']])
    return C.canon(cfg)
  if k == 'set_tags':
    fdl_tagging.set_tags(cfg, op['arg'], [stubmod.TAGS[t] for t in op['tags']])
    return C.canon(cfg)
  if k == 'set_tagged':
    fdl_tagging.set_tagged(cfg, tag=stubmod.TAGS[op['tag']], value=mk(op['v']))
    return C.canon(cfg)
  if k == 'clear_tags':
    fdl_tagging.clear_tags(cfg, op['arg'])
    return C.canon(cfg)
  if k == 'update_callable':
    mutate_buildable.update_callable(cfg, env.fns[op['fn']],
                                     drop_invalid_args=op.get('drop', False))
    return C.canon(cfg)
  if k == 'materialize':
    if not _materialize_in_scope(cfg):
      return history_obs(cfg)   # a C20 matter (see _materialize_in_scope)
    materialize.materialize_defaults(cfg)
    return C.canon(cfg)
  if k == 'assign':
    mutate_buildable.assign(cfg, **{n: mk(v) for n, v in op['kwargs'].items()})
    return C.canon(cfg)
  if k == 'copy_with':
    new = fdl.copy_with(cfg, **{n: mk(v) for n, v in op['kwargs'].items()})
    env.cfgs.append(new)
    return C.canon((cfg, new))
  raise ValueError(f'unknown op {k}')


def _materialize_in_scope(cfg):
  """materialize_defaults mishandles positional-only defaults (raises) and
  dataclass default_factory fields (stores the <factory> sentinel, which does not
  survive pickling): both belong to C20, which is not claimed.  Decided here, at
  execution time, so that shrinking or a refused earlier op cannot steer the op
  onto such a configuration."""
  import dataclasses
  import inspect
  for v, _ in daglish.iterate(cfg):
    if isinstance(v, fdl.Buildable):
      for p in v.__signature_info__.parameters.values():
        if p.kind == inspect.Parameter.POSITIONAL_ONLY and p.default is not p.empty:
          return False
        if type(p.default).__name__ == '_HAS_DEFAULT_FACTORY_CLASS':
          return False
  return True


def step(env: Env, op):
  """apply_op + exception capture + bookkeeping; appends to env.obs."""
  try:
    out = apply_op(env, op)
  except Exception as e:  # pylint: disable=broad-except
    if isinstance(e, (AttributeError, NameError)) and (
        'module ' in str(e) or isinstance(e, NameError)):
      raise  # a harness bug, not an observation
    out = C.canon_exc(e)
    if env.exc_class is not None and out['exc'] == env.exc_class.__name__:
      out['own_class'] = isinstance(e, env.exc_class)
  env.obs.append({'op': op['op'], 'out': out,
                  'tracking': fdl_history.tracking_enabled(),
                  'expected_tracking': not env.suspend and not env.tracking_off})
  env.seq_batches.append(sorted(env.new_entries()))


def finish(env: Env):
  """Leaves suspend blocks (so thread-local state is clean for the next run)."""
  while env.suspend:
    env.suspend.pop().__exit__(None, None, None)


def op_line_ranges():
  """op kind -> (first, last) source line of its branch in apply_op."""
  import inspect
  import re
  lines, start = inspect.getsourcelines(apply_op)
  marks = []
  for i, line in enumerate(lines):
    m = re.match(r"\s+if k == '(\w+)':", line)
    if m:
      marks.append((m.group(1), start + i))
    m = re.match(r"\s+if k in \(([^)]*)\):", line)
    if m:
      for name in re.findall(r"'(\w+)'", m.group(1)):
        marks.append((name, start + i))
  marks.sort(key=lambda t: t[1])
  out = {}
  end = start + len(lines)
  for j, (name, ln) in enumerate(marks):
    nxt = min([l for _, l in marks[j + 1:] if l > ln] or [end])
    out[name] = (ln, nxt - 1)
  return out
