"""Per-run stub callables generated from signature specs, and the Recorder.

A spec is JSON: {"name": str, "kind": KIND, "params": [[name, pkind, dflt]...],
"pre": {...}} where pkind in po|pk|va|ko|vk and dflt in None|"v"|"f" (value /
dataclass default_factory).  KIND in func|cls|data|cmeth|part|inst.
"""
from __future__ import annotations

import inspect
import threading

from fsim import stubmod

Rec = stubmod.Rec
StubObj = stubmod.StubObj

KINDS = ('func', 'cls', 'data', 'cmeth', 'part', 'inst', 'uinst')


class Recorder:
  """Recording world of one run: invocation log + hooks consulted by stubs."""

  def __init__(self):
    self.log = []          # Rec objects in invocation order
    self.threads = []      # sim thread id per log entry
    self.on_invoke = None  # fn(rec) -> None; may raise, pause, nested-build
    self.thread_id = _zero
    self.serial = 0
    self.mutate_args = False   # callables that modify their container arguments

  def invoke(self, stub, args):
    args = dict(args)
    args.pop('self', None)
    args.pop('cls', None)
    args.pop('__class__', None)
    self.serial += 1
    rec = Rec(stub, args, self.serial)
    if self.mutate_args:
      for v in args.values():
        if v is stubmod.DEFAULT_LIST:
          continue    # (the callable's own default object: leave the stub module alone)
        if type(v) is list:
          v.append('mutated-by-callee')
        elif type(v) is dict and v is not args.get('kw'):
          v['mutated-by-callee'] = 1
    self.log.append(rec)
    self.threads.append(self.thread_id())
    if self.on_invoke is not None:
      self.on_invoke(rec)
    return rec


def _zero():
  return 0


CURRENT = Recorder()


def reset() -> Recorder:
  global CURRENT
  CURRENT = Recorder()
  return CURRENT


def _invoke(stub, args):
  return CURRENT.invoke(stub, args)


def _invoke_obj(obj, stub, args):
  rec = CURRENT.invoke(stub, args)
  object.__setattr__(obj, '_fsim_rec', rec)


def default_token(pname):
  return 'd_' + pname


NUMERIC_DEFAULTS = {'i': 1, 'b': True, 'x': 1.0}   # equal, of three types


def default_value(p):
  """The default OBJECT of param p = [name, kind, dflt, ...] (dflt != None)."""
  if p[2] == 'o':
    return stubmod.DEFAULT_OBJ     # an opaque object: a copy of it is NOT it
  if p[2] == 'l':
    return stubmod.DEFAULT_LIST    # a mutable container as the default
  return NUMERIC_DEFAULTS[p[2]] if p[2] in NUMERIC_DEFAULTS else default_token(p[0])


def default_source(p):
  return {'o': 'DEFAULT_OBJ', 'l': 'DEFAULT_LIST'}.get(p[2]) or repr(default_value(p))


def sig_source(params, first=None):
  """Python parameter-list source for a spec's params."""
  out = [] if first is None else [first]
  po = [p for p in params if p[1] == 'po']
  pk = [p for p in params if p[1] == 'pk']
  va = [p for p in params if p[1] == 'va']
  ko = [p for p in params if p[1] == 'ko']
  vk = [p for p in params if p[1] == 'vk']

  def one(p):
    name = p[0]
    if len(p) > 3 and isinstance(p[3], dict) and p[3].get('late'):
      # a STRING annotation naming a module global that is defined only later
      # (forward reference): unresolvable until then
      name += ": 'typing.Annotated[object, " + p[3]['late'] + "]'"
      return name if p[2] is None else f'{name} = {default_source(p)}'
    if len(p) > 3 and p[3]:
      # annotation tags: fiddle attaches them when the config is created
      name += ': typing.Annotated[object, ' + ', '.join(p[3]) + ']'
      return name if p[2] is None else f'{name} = {default_source(p)}'
    return name if p[2] is None else f'{name}={default_source(p)}'

  out += [one(p) for p in po]
  if po:
    out.append('/')
  out += [one(p) for p in pk]
  if va:
    out.append('*' + one(va[0]))     # (may carry an annotation)
  elif ko:
    out.append('*')
  out += [one(p) for p in ko]
  if vk:
    out.append('**' + one(vk[0]))
  return ', '.join(out)


def stub_source(spec):
  name, kind, params = spec['name'], spec['kind'], spec['params']
  if kind == 'func':
    return (f'def {name}({sig_source(params)}):\n'
            f'  return _invoke({name!r}, locals())\n')
  if kind == 'cls':
    return (f'class {name}(StubObj):\n'
            f'  def __init__({sig_source(params, "self")}):\n'
            f'    _invoke_obj(self, {name!r}, locals())\n')
  if kind == 'inst':
    return (f'class {name}_I:\n'
            f'  def __call__({sig_source(params, "self")}):\n'
            f'    return _invoke({name!r}, locals())\n'
            f'{name} = {name}_I()\n')
  if kind == 'uinst':
    # unhashable, non-weakrefable callable instance (cannot be a key of a weak
    # cache); instantiated by the machine AFTER its decoys died (see decoys())
    return (f'class {name}_U:\n'
            f'  __slots__ = ()\n'
            f'  def __eq__(self, other):\n'
            f'    return self is other\n'
            f'  def __call__({sig_source(params, "self")}):\n'
            f'    return _invoke({name!r}, locals())\n'
            f'class {name}_Decoy:\n'
            f'  __slots__ = ()\n'
            f'  def __eq__(self, other):\n'
            f'    return self is other\n'
            f'  def __call__(self, q0, q1=1, *, q2=2):\n'
            f'    return None\n'
            f'{name} = None\n')
  if kind == 'cmeth':
    return (f'class {name}_K:\n'
            f'  @classmethod\n'
            f'  def make({sig_source(params, "cls")}):\n'
            f'    return _invoke({name!r}, locals())\n'
            f'{name} = {name}_K.make\n')
  if kind == 'part':
    pre = spec.get('pre', {})
    # 'pos_src': raw source of pre-bound positional values (e.g. 'Hostile()')
    pos = ', '.join([repr(v) for v in pre.get('pos', [])] + list(pre.get('pos_src', [])))
    kws = ', '.join(f'{k}={v!r}' for k, v in pre.get('kw', {}).items())
    bound = ', '.join(x for x in (pos, kws) if x)
    return (f'def {name}_inner({sig_source(params)}):\n'
            f'  return _invoke({name!r}, locals())\n'
            f'{name} = functools.partial({name}_inner'
            + (', ' + bound if bound else '') + ')\n')
  if kind == 'data':
    lines = ['@dataclasses.dataclass(eq=False)', f'class {name}(StubObj):']
    for p in params:
      pname, pkind, dflt = p[:3]
      assert pkind in ('pk', 'ko'), 'dataclass stubs: pk/ko params only'
      opts = []
      if dflt == 'v' or dflt == 'o' or dflt in NUMERIC_DEFAULTS:
        opts.append(f'default={default_source(p)}')
      elif dflt == 'f':
        opts.append('default_factory=list')
      if pkind == 'ko':
        opts.append('kw_only=True')
      if opts:
        lines.append(f'  {pname}: object = dataclasses.field({", ".join(opts)})')
      else:
        lines.append(f'  {pname}: object')
    if not params:
      lines.append('  pass')
    fields = ', '.join(f'{p[0]!r}: self.{p[0]}' for p in params)
    lines.append('  def __post_init__(self):')
    lines.append(f'    _invoke_obj(self, {name!r}, {{{fields}}})')
    return '\n'.join(lines) + '\n'
  raise ValueError(kind)


def install(specs):
  """(Re)creates the stub callables of `specs` in fsim.stubmod.

  Fresh objects every time, so fiddle's signature caches are cold for them.
  Returns {name: callable}.
  """
  ns = stubmod.__dict__
  ns['_invoke'] = _invoke
  ns['_invoke_obj'] = _invoke_obj
  out = {}
  for spec in specs:
    src = stub_source(spec)
    code = compile(src, f'<stub {spec["name"]}>', 'exec')
    exec(code, ns)  # pylint: disable=exec-used
    if spec['kind'] == 'uinst':
      import gc
      import fiddle as fdl
      # a short history of dead unhashable callables with ANOTHER signature:
      # their addresses are recycled by the instance created next
      for _ in range(6):
        d = ns[spec['name'] + '_Decoy']()
        try:
          fdl.Config(d, 1)
        except Exception:  # pylint: disable=broad-except
          pass
        del d
      gc.collect()
      ns[spec['name']] = ns[spec['name'] + '_U']()
    obj = ns[spec['name']]
    for n in (spec['name'], spec['name'] + '_I', spec['name'] + '_K',
              spec['name'] + '_inner', spec['name'] + '_U'):
      o = ns.get(n)
      if o is not None and hasattr(o, '__module__'):
        try:
          o.__module__ = 'fsim.stubmod'
        except (AttributeError, TypeError):
          pass
    ann = {p[0]: list(p[3]) for p in spec['params']
           if len(p) > 3 and p[3] and not isinstance(p[3], dict)}
    if ann:
      obj._fsim_ann = ann  # the model reads the annotation tags from here
    out[spec['name']] = obj
  return out


def gen_params(rng, *, allow_po=True, allow_va=True, allow_vk=True,
               max_po=2, max_pk=3, max_ko=2, factory=False):
  """Random parameter list: [[name, kind, default]]."""
  n_po = rng.randint(0, max_po) if allow_po else 0
  n_pk = rng.randint(0, max_pk)
  n_ko = rng.randint(0, max_ko)
  va = allow_va and rng.random() < 0.6
  vk = allow_vk and rng.random() < 0.4
  n_pos = n_po + n_pk
  n_dflt = rng.randint(0, n_pos) if rng.random() < 0.7 else 0
  params = []
  for i in range(n_po):
    params.append([f'p{i}', 'po', 'v' if i >= n_pos - n_dflt else None])
  for i in range(n_pk):
    j = n_po + i
    d = None
    if j >= n_pos - n_dflt:
      d = 'f' if (factory and rng.random() < 0.4) else 'v'
    params.append([f'a{i}', 'pk', d])
  if va:
    params.append(['args', 'va', None])
  for i in range(n_ko):
    d = None
    if rng.random() < 0.5:
      d = 'f' if (factory and rng.random() < 0.4) else 'v'
    params.append([f'k{i}', 'ko', d])
  if vk:
    params.append(['kw', 'vk', None])
  if rng.random() < 0.2:
    # defaults that are equal across types (1 / True / 1.0)
    for p in params:
      if p[2] == 'v' and rng.random() < 0.7:
        p[2] = rng.choice(sorted(NUMERIC_DEFAULTS))
  if rng.random() < 0.15:
    # a default that is an opaque object (sentinel-like): identity matters
    for p in params:
      if p[2] == 'v' and rng.random() < 0.5:
        p[2] = 'o'
  if rng.random() < 0.25:
    # parameter names that internal helpers of a library like to use for their
    # own parameters (a keyword forwarded through such a helper collides)
    pool = list(TRICKY_NAMES)
    rng.shuffle(pool)
    for p in params:
      if p[1] in ('pk', 'ko') and rng.random() < 0.6:
        p[0] = pool.pop()
  return params


TRICKY_NAMES = ['fn', 'value', 'name', 'buildable', 'fn_or_cls',
                'state', 'path', 'key', 'lazy_message', 'arguments', 'metadata',
                'values', 'tags', 'config', 'memo', 'func', 'message', 'item',
                'index', 'default', 'tag', 'root', 'cfg', 'other', 'result']


def gen_spec(rng, name, kinds=KINDS):
  kind = rng.choice(list(kinds))
  if kind == 'data':
    params = gen_params(rng, allow_po=False, allow_va=False, allow_vk=False,
                        factory=True)
  else:
    params = gen_params(rng)
  spec = {'name': name, 'kind': kind, 'params': params}
  if kind == 'part':
    pre = {}
    ko = [p for p in params if p[1] == 'ko']
    if ko and rng.random() < 0.6:
      p = rng.choice(ko)
      pre.setdefault('kw', {})[p[0]] = 'pre_' + p[0]
    if any(p[1] == 'vk' for p in params) and rng.random() < 0.3:
      pre.setdefault('kw', {})['prefree'] = 'pre_free'
    pos = [p for p in params if p[1] in ('po', 'pk')]
    if pos and rng.random() < 0.3:
      pre['pos'] = ['pre_' + pos[0][0]]
    spec['pre'] = pre
  return spec


def twin_spec(spec, name):
  """A DIFFERENT callable whose inspect.Signature compares equal to spec's:
  numeric defaults replaced by equal values of another type, keyword-only
  parameters declared in reverse order.  None if it would not differ."""
  import copy as _copy
  rot = {'i': 'b', 'b': 'x', 'x': 'i'}
  params = _copy.deepcopy(spec['params'])
  changed = False
  for p in params:
    if p[2] in rot:
      p[2] = rot[p[2]]
      changed = True
  ko = [i for i, p in enumerate(params) if p[1] == 'ko']
  if len(ko) >= 2 and not (spec['kind'] == 'data'):
    # a reordering is only legal where defaults do not constrain the order (ko)
    vals = [params[i] for i in reversed(ko)]
    for i, v in zip(ko, vals):
      params[i] = v
    changed = True
  if not changed:
    return None
  kind = spec['kind'] if spec['kind'] in ('func', 'cls', 'data', 'cmeth') else 'func'
  return {'name': name, 'kind': kind, 'params': params}


class SigView:
  """The signature as Python reports it (inspect), independent of fiddle."""

  def __init__(self, fn):
    self.sig = inspect.signature(fn)
    self.params = list(self.sig.parameters.values())
    P = inspect.Parameter
    self.prefix = [p for p in self.params
                   if p.kind in (P.POSITIONAL_ONLY, P.POSITIONAL_OR_KEYWORD)]
    self.po = [p.name for p in self.params if p.kind == P.POSITIONAL_ONLY]
    self.pk = [p.name for p in self.params
               if p.kind == P.POSITIONAL_OR_KEYWORD]
    self.ko = [p.name for p in self.params if p.kind == P.KEYWORD_ONLY]
    self.va = next((p.name for p in self.params
                    if p.kind == P.VAR_POSITIONAL), None)
    self.vk = next((p.name for p in self.params
                    if p.kind == P.VAR_KEYWORD), None)
    self.P = len(self.prefix)
    self.defaults = {p.name: p.default for p in self.params
                     if p.default is not P.empty}
    self.index_of = {p.name: i for i, p in enumerate(self.prefix)}
