"""The module a symbol of fsim.stubmod is MIGRATED to (C09: documents naming
fsim.stubmod.moved_fn are read as fsim.stubmod_new.moved_fn once the migration
is registered, while a deprecated stand-in stays behind under the old name)."""


def moved_fn(uid, x='d_x'):
  return ('new', uid, x)
