"""Deterministic baton scheduler over real threads.

Exactly one simulated thread is runnable at any time; the running thread hands
the baton over inside its trace callback.  Pre-emption points:

  * every `line` event in a function frame whose file lies under one of
    `prefixes` (fiddle/_src), module-level frames excluded;
  * every `opcode` event in files listed in `opcode_files` (optional);
  * explicit Sched.pause() calls made by stub callables.

Which thread runs next is decided by a policy that draws only from the PRNG it
was given (or, for ScriptedPolicy, from a recorded turn list).  Every turn is
recorded as [thread, n_steps]; feeding that list to ScriptedPolicy reproduces
the interleaving without any PRNG.
"""
from __future__ import annotations

import sys
import threading

MASK = (1 << 61) - 1


class HarnessError(Exception):
  pass


class SimDeadlock(Exception):
  """Every simulated thread waits for a lock held by another one."""


# ---------------------------------------------------------------------------
# policies
# ---------------------------------------------------------------------------
class RandomWalk:
  """At every step switch to a random other runnable thread with prob p."""

  def __init__(self, rng, p):
    self.rng, self.p = rng, p

  def first(self, runnable):
    return self.rng.choice(runnable)

  def decide(self, tid, runnable, step_no, is_pause):
    if len(runnable) > 1 and self.rng.random() < self.p:
      return self.rng.choice([t for t in runnable if t != tid])
    return tid

  def on_exit(self, runnable):
    return self.rng.choice(runnable)

  on_block = on_exit


class HotWalk:
  """Random walk that pre-empts rarely, except at "hot" lines: lines of
  functions that touch module-level mutable state or lazily fill a private
  attribute of an object (found by a static scan of the code under test, see
  hot_lines()).  After a switch the other thread runs long stretches, which is
  what a check-then-act window needs."""
  wants_hot = True

  def __init__(self, rng, p, p_hot, hold=0, novel=0):
    self.rng, self.p, self.p_hot, self.hold = rng, p, p_hot, hold
    self.quiet = 0    # steps during which the running thread is left alone
    # novel = K > 0: a hot line counts as hot only the first K times a thread
    # executes it (cold paths: first lookups, cache fills, table growth)
    self.novel = novel
    self.seen = {}
    self.where = 0    # set by the scheduler before every decide()

  def first(self, runnable):
    return self.rng.choice(runnable)

  def decide(self, tid, runnable, step_no, is_pause):
    if self.quiet > 0:
      self.quiet -= 1
      return tid
    if is_pause == 2 and self.novel:
      key = (tid, self.where)
      n = self.seen.get(key, 0)
      if n >= self.novel:
        is_pause = False
      else:
        self.seen[key] = n + 1
    p = self.p_hot if is_pause == 2 else self.p
    if len(runnable) > 1 and self.rng.random() < p:
      if is_pause == 2 and self.hold:
        # parked inside a hot function: whoever runs now gets a long stretch
        self.quiet = self.rng.randint(0, self.hold)
      return self.rng.choice([t for t in runnable if t != tid])
    return tid

  def on_exit(self, runnable):
    return self.rng.choice(runnable)

  on_block = on_exit


_HOT_CACHE = {}


def hot_lines(prefix):
  """{filename: frozenset(line numbers)} for the .py files under prefix.

  Static and therefore the same in every process: a function is hot if it
  reads or writes a module-level name bound to a mutable object (list / dict /
  set / tuple literal or a call) or declared `global`, or if it assigns a
  private attribute (`self._x = ...`) outside `__init__`-like methods."""
  import ast
  import os
  got = _HOT_CACHE.get(prefix)
  if got is not None:
    return got
  out = {}
  for root, _, files in sorted(os.walk(prefix)):
    for fname in sorted(files):
      if not fname.endswith('.py') or fname.endswith('_test.py'):
        continue
      path = os.path.join(root, fname)
      try:
        tree = ast.parse(open(path, encoding='utf-8').read())
      except (SyntaxError, OSError, UnicodeDecodeError):
        continue
      shared = set()
      for node in tree.body:
        targets, value = [], None
        if isinstance(node, ast.Assign):
          targets, value = node.targets, node.value
        elif isinstance(node, ast.AnnAssign) and node.value is not None:
          targets, value = [node.target], node.value
        if isinstance(value, (ast.List, ast.Dict, ast.Set, ast.Tuple, ast.Call,
                              ast.ListComp, ast.DictComp, ast.SetComp)):
          for t in targets:
            if isinstance(t, ast.Name) and not t.id.isupper():
              shared.add(t.id)
      for node in ast.walk(tree):
        if isinstance(node, ast.Global):
          shared.update(node.names)
      lines = set()
      for fn in ast.walk(tree):
        if not isinstance(fn, (ast.FunctionDef, ast.AsyncFunctionDef, ast.Lambda)):
          continue
        hot = False
        for sub in ast.walk(fn):
          if isinstance(sub, ast.Name) and sub.id in shared:
            hot = True
            break
          # self._x[...] = v   /   self._x.append(...) etc.: a private
          # container of a (possibly process-wide) object is modified
          tgt = None
          if isinstance(sub, ast.Subscript) and isinstance(sub.ctx, (ast.Store, ast.Del)):
            tgt = sub.value
          elif (isinstance(sub, ast.Call) and isinstance(sub.func, ast.Attribute)
                and sub.func.attr in ('append', 'extend', 'add', 'clear', 'pop',
                                      'update', 'setdefault', 'insert', 'remove',
                                      'discard', 'popitem')):
            tgt = sub.func.value
          if (isinstance(tgt, ast.Attribute) and isinstance(tgt.value, ast.Name)
              and tgt.value.id == 'self' and tgt.attr.startswith('_')
              and not tgt.attr.startswith('__')
              and getattr(fn, 'name', '') not in ('__init__', '__post_init__', '__new__')):
            hot = True
            break
          if (isinstance(sub, ast.Attribute) and isinstance(sub.ctx, ast.Store)
              and isinstance(sub.value, ast.Name) and sub.value.id == 'self'
              and sub.attr.startswith('_') and not sub.attr.startswith('__')
              and getattr(fn, 'name', '') not in ('__init__', '__post_init__',
                                                  '__new__', '__setstate__')):
            hot = True
            break
        if hot:
          end = getattr(fn, 'end_lineno', fn.lineno)
          lines.update(range(fn.lineno, end + 1))
      if lines:
        out[path] = frozenset(lines)
  _HOT_CACHE[prefix] = out
  return out


class PCT:
  """Random priorities; d priority-change points at random step indices."""

  def __init__(self, rng, n_threads, d, horizon):
    self.rng = rng
    prios = list(range(d + 1, d + 1 + n_threads))
    rng.shuffle(prios)
    self.prio = dict(enumerate(prios))
    self.change = sorted(rng.randrange(1, max(2, horizon)) for _ in range(d))
    self.low = d

  def _best(self, runnable):
    return max(runnable, key=lambda t: self.prio[t])

  def first(self, runnable):
    return self._best(runnable)

  def decide(self, tid, runnable, step_no, is_pause):
    while self.change and step_no >= self.change[0]:
      self.change.pop(0)
      self.prio[tid] = self.low
      self.low -= 1
    return self._best(runnable)

  def on_exit(self, runnable):
    return self._best(runnable)

  on_block = on_exit


class RunToPause:
  """Switches only at explicit pause points (prob q) and at thread exit."""

  def __init__(self, rng, q=0.6):
    self.rng, self.q = rng, q

  def first(self, runnable):
    return self.rng.choice(runnable)

  def decide(self, tid, runnable, step_no, is_pause):
    if is_pause and len(runnable) > 1 and self.rng.random() < self.q:
      return self.rng.choice([t for t in runnable if t != tid])
    return tid

  def on_exit(self, runnable):
    return self.rng.choice(runnable)

  on_block = on_exit


class ScriptedPolicy:
  """Replays a recorded turn list [[tid, n_steps, ended_by_exit], ...] verbatim.

  If the script no longer fits (a thread finished early after shrinking) it
  falls back to: never pre-empt, lowest runnable id at exit.
  """

  def __init__(self, turns):
    self.turns = [list(t) for t in turns]
    self.i = 0
    self.used = 0
    self.free = not self.turns

  def _advance(self, runnable, tid_now):
    """Moves to the next turn whose thread is runnable; returns its tid."""
    self.i += 1
    self.used = 0
    while self.i < len(self.turns) and self.turns[self.i][0] not in runnable:
      self.i += 1
    if self.i >= len(self.turns):
      self.free = True
      if tid_now is not None and tid_now in runnable:
        return tid_now
      return min(runnable)
    return self.turns[self.i][0]

  def first(self, runnable):
    if self.free or self.turns[0][0] not in runnable:
      self.i = -1
      return self._advance(runnable, None)
    return self.turns[0][0]

  def decide(self, tid, runnable, step_no, is_pause):
    if self.free:
      return tid
    if self.turns[self.i][0] != tid:
      self.free = True
      return tid
    self.used += 1
    turn = self.turns[self.i]
    ended_by_exit = len(turn) > 2 and turn[2]   # 1 = exit, 2 = blocked on a lock
    if self.used >= turn[1] and not ended_by_exit:
      return self._advance(runnable, tid)
    return tid

  def on_exit(self, runnable):
    if self.free:
      return min(runnable)
    return self._advance(runnable, None)

  on_block = on_exit


def make_policy(desc, rng, n_threads):
  k = desc['kind']
  if k == 'random':
    return RandomWalk(rng, desc['p'])
  if k == 'pct':
    return PCT(rng, n_threads, desc['d'], desc['horizon'])
  if k == 'pause':
    return RunToPause(rng, desc.get('q', 0.6))
  if k == 'hot':
    return HotWalk(rng, desc.get('p', 0.01), desc.get('p_hot', 0.4), desc.get('hold', 0),
                   desc.get('novel', 0))
  if k == 'script':
    return ScriptedPolicy(desc['turns'])
  raise ValueError(k)


# ---------------------------------------------------------------------------
# scheduler
# ---------------------------------------------------------------------------
class Sched:

  def __init__(self, policy, prefixes, opcode_files=(), step_cap=2_000_000,
               wall_guard_s=120.0):
    self.policy = policy
    self.prefixes = tuple(prefixes)
    self.opcode_files = tuple(opcode_files)
    self.step_cap = step_cap
    self.wall_guard_s = wall_guard_s
    self.tls = threading.local()
    self.steps = 0
    self.switches = 0
    self.pauses = 0
    self.digest = 0
    self.turns = []
    self.capped = False
    self._files = {}
    self._file_idx = {}
    self.sems = []
    self.done = []
    self.errors = {}
    self.all_done = threading.Event()
    self.cur = None
    self.hooks = []   # fn(tid) called at every step while holding the baton
    self.hot = {}
    if getattr(policy, 'wants_hot', False):
      for pre in self.prefixes:
        self.hot.update(hot_lines(pre))
    self.blocked = {}     # tid -> SimLock it waits for
    self.lock_waits = 0
    self.deadlock = None

  # -- identity ------------------------------------------------------------
  def thread_id(self):
    return getattr(self.tls, 'tid', -1)

  # -- tracing -------------------------------------------------------------
  def _classify(self, filename):
    flag = 0
    if filename.startswith(self.prefixes):
      flag = 1
      if filename.endswith(self.opcode_files) and self.opcode_files:
        flag = 2
    self._files[filename] = flag
    if flag:
      self._file_idx[filename] = len(self._file_idx) + 1
    return flag

  def _global_trace(self, frame, event, arg):
    code = frame.f_code
    flag = self._files.get(code.co_filename)
    if flag is None:
      flag = self._classify(code.co_filename)
    if not flag or code.co_name == '<module>':
      return None
    if flag == 2:
      frame.f_trace_opcodes = True
    return self._local_trace

  def _local_trace(self, frame, event, arg):
    if event == 'line' or event == 'opcode':
      fname = frame.f_code.co_filename
      hot = self.hot and frame.f_lineno in self.hot.get(fname, ())
      self._step(self._file_idx[fname] * 100003 + frame.f_lineno,
                 2 if hot else False)
    return self._local_trace

  def pause(self, tag=0):
    """Explicit pre-emption point (called by stub callables)."""
    if self.thread_id() < 0:
      return
    self.pauses += 1
    self._step(tag, True)

  def runnable(self):
    out = []
    for t, d in enumerate(self.done):
      if d:
        continue
      lk = self.blocked.get(t)
      if lk is not None and lk.locked():
        continue
      out.append(t)
    return out

  def block(self, tid, lock):
    """Called by SimLock.acquire: `tid` cannot proceed until `lock` is free."""
    self.lock_waits += 1
    self.blocked[tid] = lock
    rest = [t for t in self.runnable() if t != tid]
    if not rest:
      self.deadlock = (f'thread {tid} waits for a lock held by {lock._owner}; '
                       f'no other thread can run (blocked: {sorted(self.blocked)})')
      self.all_done.set()
      self.sems[tid].acquire()   # park forever; the run is over
    nxt = self.policy.on_block(rest)
    self.switches += 1
    self.turns[-1][2] = 2
    self.turns.append([nxt, 0, 0])
    self.cur = nxt
    self.sems[nxt].release()
    self.sems[tid].acquire()
    self.blocked.pop(tid, None)

  def _step(self, where, is_pause):
    tid = self.tls.tid
    self.steps += 1
    self.digest = ((self.digest * 1000003) ^ (tid * 7919 + where)) & MASK
    self.turns[-1][1] += 1
    for h in self.hooks:
      h(tid)
    if self.capped:
      return
    if self.steps > self.step_cap:
      self.capped = True
      return
    if self.hot:
      self.policy.where = where
    nxt = self.policy.decide(tid, self.runnable(), self.steps, is_pause)
    if nxt != tid:
      self.switches += 1
      self.turns.append([nxt, 0, 0])
      self.cur = nxt
      self.sems[nxt].release()
      self.sems[tid].acquire()

  # -- threads -------------------------------------------------------------
  def _body(self, tid, fn):
    self.tls.tid = tid
    self.sems[tid].acquire()
    sys.settrace(self._global_trace)
    try:
      fn()
    except BaseException as e:  # pylint: disable=broad-except
      self.errors[tid] = e
    finally:
      sys.settrace(None)
      self.done[tid] = True
      self.turns[-1][2] = 1
      rest = self.runnable()
      if not rest:
        if not all(self.done):
          self.deadlock = (f'thread {tid} finished; the remaining threads all wait '
                           f'for locks (blocked: {sorted(self.blocked)})')
        self.all_done.set()
      else:
        nxt = self.policy.on_exit(rest)
        self.turns.append([nxt, 0, 0])
        self.cur = nxt
        self.sems[nxt].release()

  def run(self, fns):
    n = len(fns)
    self.sems = [threading.Semaphore(0) for _ in range(n)]
    self.done = [False] * n
    threads = [threading.Thread(target=self._body, args=(i, f), daemon=True,
                                name=f'sim-{i}')
               for i, f in enumerate(fns)]
    for t in threads:
      t.start()
    from fsim import simlock
    simlock.CURRENT = self
    first = self.policy.first(list(range(n)))
    self.turns.append([first, 0, 0])
    self.cur = first
    self.sems[first].release()
    ok = self.all_done.wait(self.wall_guard_s)
    simlock.CURRENT = None
    if self.deadlock:
      raise SimDeadlock(self.deadlock)
    if not ok:
      raise HarnessError(
          f'scheduler made no progress for {self.wall_guard_s}s '
          f'(cur={self.cur}, steps={self.steps}, done={self.done})')
    for t in threads:
      t.join(5)
    if self.errors:
      tid, e = sorted(self.errors.items())[0]
      raise HarnessError(f'sim thread {tid} died: {type(e).__name__}: {e}') from e
    if self.capped:
      raise HarnessError(f'step cap {self.step_cap} exceeded')

  def sched_hash(self):
    return '%016x' % (self.digest ^ (len(self.turns) << 40) & MASK)
