"""Lane process: reads ONE job (JSON) from stdin, runs its share of the seeds,
writes ONE result (JSON) to stdout.

Wall-clock is read only to stop *starting* new runs; every run is a pure
function of (VERIF_SEED, run index, code).
"""
from __future__ import annotations

import collections
import faulthandler
import importlib
import json
import logging
import os
import sys
import time
import traceback

from fsim import shrink as shrink_lib
from fsim.world import World, stable_hash


def quiet_logging():
  logging.disable(logging.CRITICAL)
  try:
    from absl import logging as absl_logging
    absl_logging.set_verbosity(absl_logging.FATAL)
    absl_logging.set_stderrthreshold('fatal')
  except Exception:  # pylint: disable=broad-except
    pass


def load_machine(name):
  mod = importlib.import_module(f'machines.{name}')
  return mod.MACHINE


def match_known(fp, known):
  for k in known:
    if k.get('status', 'known') != 'known':
      continue
    m = k['match']
    if all(fp.get(a) == b for a, b in m.items()):
      return k
  return None


def _run_here(machine, case):
  try:
    return machine.run(case)
  except Exception:  # pylint: disable=broad-except
    return {'harness_error': traceback.format_exc()}


def run_case(machine, case):
  """Runs one case in a forked child of this (warmed, otherwise idle) lane.

  Every run therefore starts from the same process state: nothing a previous
  run left behind in fiddle's module globals (caches, counters, thread-local
  flags, a stuck build guard) can influence it, so a run is a pure function of
  (case, code) and replays identically in a fresh interpreter.  Harness
  exceptions are classified apart from violations.
  """
  r, w = os.pipe()
  pid = os.fork()
  if pid == 0:
    code = 0
    try:
      os.close(r)
      res = _run_here(machine, case)
      data = json.dumps(res, default=repr).encode()
      with os.fdopen(w, 'wb') as f:
        f.write(data)
    except BaseException:  # pylint: disable=broad-except
      code = 3
    finally:
      os._exit(code)
  os.close(w)
  chunks = []
  with os.fdopen(r, 'rb') as f:
    while True:
      b = f.read(1 << 16)
      if not b:
        break
      chunks.append(b)
  _, status = os.waitpid(pid, 0)
  data = b''.join(chunks)
  if status != 0 or not data:
    return {'harness_error': f'run child exited with status {status} '
                             f'({len(data)} bytes of output)'}
  return json.loads(data)


def run_seeds(job):
  machine = load_machine(job['machine'])
  prop = job['property']
  known = job.get('known', [])
  lane, lanes, count = job['lane'], job['lanes'], job['count']
  budget = job['budget_s']
  t0 = time.monotonic()
  agg = {
      'runs': 0, 'steps': 0, 'faults': collections.Counter(),
      'probes': collections.Counter(), 'states': set(), 'scheds': set(),
      'nontrivial': set(), 'discarded': collections.Counter(),
      'samples': [], 'known': {}, 'violations': [], 'harness_errors': [],
      'other_property_violations': collections.Counter(), 'seeds': [],
      'shrink_execs': 0, 'stopped_by_budget': False, 'digest': [],
  }
  i = lane
  while i < count:
    if time.monotonic() - t0 > budget:
      agg['stopped_by_budget'] = True
      break
    world = World(f'{job["seed"]}/{machine.name}/{i}')
    case = machine.gen(world, job['tier'], prop)
    case['_seed'] = f'{job["seed"]}/{machine.name}/{i}'
    res = run_case(machine, case)
    agg['runs'] += 1
    agg['seeds'].append(i)
    if 'harness_error' in res:
      agg['harness_errors'].append({'run': i, 'case': case,
                                    'error': res['harness_error']})
      if len(agg['harness_errors']) >= 3:
        break
      i += lanes
      continue
    agg['steps'] += res.get('steps', 0)
    agg['faults'].update(res.get('faults', {}))
    agg['probes'].update(res.get('probes', {}))
    agg['states'].update(res.get('state_hashes', ()))
    if res.get('sched_hash'):
      agg['scheds'].add(res['sched_hash'])
    if res.get('discarded'):
      agg['discarded'][res['discarded']] += 1
    if res.get('nontrivial'):
      agg['nontrivial'].add(res.get('case_hash') or stable_hash(case))
    if job.get('digests'):
      agg['digest'].append([i, stable_hash([
          res.get('sched_hash'), res.get('steps'), res.get('state_hashes'),
          sorted(res.get('faults', {}).items()),
          sorted(res.get('probes', {}).items()), res.get('discarded'),
          [v['fp'] for v in res.get('violations', [])]])])
    if len(agg['samples']) < 2 and res.get('nontrivial'):
      agg['samples'].append(machine.sample(case, res))
    stop = False
    for v in res.get('violations', []):
      if v['fp']['property'] != prop:
        agg['other_property_violations'][v['fp']['property']] += 1
        continue
      k = match_known(v['fp'], known)
      if k is not None:
        ent = agg['known'].setdefault(k['id'], {'count': 0, 'example': None})
        ent['count'] += 1
        if ent['example'] is None:
          ent['example'] = {'run': i, 'msg': v['msg']}
        continue
      # unknown violation: minimise, report, stop this lane
      fp = v['fp']

      def same(c, fp=fp):
        r = run_case(machine, c)
        return any(x['fp'] == fp for x in r.get('violations', []))

      start = case
      if hasattr(machine, 'pin'):
        pinned = machine.pin(case, res)
        if same(pinned):
          start = pinned
      small, execs = shrink_lib.shrink(
          start, same, machine.shrink_candidates,
          budget=job.get('shrink_budget', 300))
      agg['shrink_execs'] += execs
      r2 = run_case(machine, small)
      v2 = next((x for x in r2.get('violations', []) if x['fp'] == fp), v)
      agg['violations'].append({'run': i, 'fp': fp, 'msg': v2['msg'],
                                'case': small, 'orig_case': case,
                                'orig_msg': v['msg'],
                                'orig_ops': machine.size(case),
                                'min_ops': machine.size(small)})
      stop = True
      break
    if stop:
      break
    i += lanes
  out = dict(agg)
  out['faults'] = dict(agg['faults'])
  out['probes'] = dict(agg['probes'])
  out['states'] = sorted(agg['states'])
  out['scheds'] = sorted(agg['scheds'])
  out['nontrivial'] = sorted(agg['nontrivial'])
  out['discarded'] = dict(agg['discarded'])
  out['other_property_violations'] = dict(agg['other_property_violations'])
  out['wall_s'] = time.monotonic() - t0
  return out


def replay(job):
  machine = load_machine(job['machine'])
  res = run_case(machine, job['case'])
  if 'harness_error' in res:
    return {'harness_error': res['harness_error']}
  want = job.get('fp')
  hits = [v for v in res.get('violations', [])
          if (want is None or v['fp'] == want)]
  return {'reproduced': bool(hits), 'violations': res.get('violations', []),
          'digest': res.get('digest')}


def main():
  from fsim import simlock
  simlock.install()   # before fiddle is imported: its locks become schedulable
  quiet_logging()
  job = json.loads(sys.stdin.read())
  faulthandler.enable()
  hard = job.get('hard_timeout_s')
  if hard:
    faulthandler.dump_traceback_later(hard, exit=True)
  if job['mode'] == 'warm':
    for m in job['machines']:
      load_machine(m)
    out = {'ok': True}
  elif job['mode'] == 'replay':
    out = replay(job)
  else:
    out = run_seeds(job)
  sys.stdout.write(json.dumps(out, default=repr))
  sys.stdout.flush()
  os._exit(0)  # do not wait for parked daemon threads


if __name__ == '__main__':
  main()
