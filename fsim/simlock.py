"""Cooperative locks for code under simulation.

threading.Lock / threading.RLock are replaced by factories that hand out a
SimLock when (and only when) the lock is created by a frame of fiddle/_src; all
other callers get real locks.  A SimLock never blocks the OS thread: a
simulated thread that finds it held tells the scheduler, which runs somebody
else - so a parked thread holding a lock cannot wedge the baton, and lock
hand-over becomes one more scheduled event.  All threads blocked = deadlock,
reported by the scheduler.
"""
from __future__ import annotations

import sys
import threading

_real_lock = threading.Lock
_real_rlock = threading.RLock
CURRENT = None      # the Sched of the running simulation, if any
PREFIX = None
CREATED = 0


class SimLock:

  def __init__(self, reentrant=False):
    self._owner = None
    self._count = 0
    self._reentrant = reentrant

  def _me(self):
    sc = CURRENT
    if sc is not None:
      t = sc.thread_id()
      if t >= 0:
        return ('sim', t)
    return ('os', threading.get_ident())

  def acquire(self, blocking=True, timeout=-1):
    me = self._me()
    while self._owner is not None and not (self._reentrant and self._owner == me):
      if not blocking:
        return False
      sc = CURRENT
      if sc is None or me[0] != 'sim':
        raise RuntimeError('SimLock: would block outside a simulation '
                           f'(owner {self._owner}, me {me})')
      sc.block(me[1], self)
    self._owner = me
    self._count += 1
    return True

  def release(self):
    if self._owner is None:
      raise RuntimeError('release unlocked lock')
    self._count -= 1
    if self._count == 0:
      self._owner = None

  def locked(self):
    return self._owner is not None

  def __enter__(self):
    self.acquire()
    return True

  def __exit__(self, *exc):
    self.release()

  # RLock internals used by threading.Condition are deliberately absent.


def _from_fiddle():
  f = sys._getframe(2)
  return PREFIX is not None and f.f_code.co_filename.startswith(PREFIX)


def _lock_factory(*a, **k):
  global CREATED
  if _from_fiddle():
    CREATED += 1
    return SimLock(False)
  return _real_lock(*a, **k)


def _rlock_factory(*a, **k):
  global CREATED
  if _from_fiddle():
    CREATED += 1
    return SimLock(True)
  return _real_rlock(*a, **k)


def install():
  """Must run before fiddle is imported (module-level locks)."""
  global PREFIX
  import importlib.util
  import os
  spec = importlib.util.find_spec('fiddle')
  PREFIX = os.path.join(list(spec.submodule_search_locations)[0], '_src') + os.sep
  threading.Lock = _lock_factory
  threading.RLock = _rlock_factory
