"""Reference models.  Trivial inside: dicts and lists.

MNode is the ArgModel of DESIGN.md Appendix A plus a per-argument tag set.
Nothing here looks at fiddle's control flow; the signature comes from
inspect.signature (fsim.stubs.SigView).
"""
from __future__ import annotations

import inspect
import itertools

from fiddle._src import signatures as _sigs

from fsim import stubmod
from fsim.stubs import SigView

NO_VALUE = _sigs.NO_VALUE
_EMPTY = inspect.Parameter.empty


class Invalid(Exception):
  """The model says the operation is invalid and must be refused."""


class DontCare:
  """Slot whose reported value the property does not pin down."""

  def __repr__(self):
    return '<dontcare>'


DONTCARE = DontCare()


def _is_factory_default(d):
  return type(d).__name__ == '_HAS_DEFAULT_FACTORY_CLASS'


class MTagged:
  """Model of a transitory TaggedValue: tags plus an optional value."""

  def __init__(self, tags, has_value, value):
    self.tags, self.has_value, self.value = set(tags), has_value, value


class MNode:
  """Model of one Buildable."""

  def __init__(self, btype, fn, sv: SigView | None = None):
    self.btype = btype
    self.fn = fn
    self.sv = sv or SigView(fn)
    self.named = {}   # pk / ko / free names -> value (insertion ordered)
    self.pos = {}     # index of positional-only param -> value
    self.tail = []    # *args
    self.tags = {}    # storage key -> set of tag names

  # ---- structure ---------------------------------------------------------
  def storage(self):
    """Arguments in fiddle's documented canonical storage format."""
    out = {}
    for i, v in self.pos.items():
      out[i] = v
    for n, v in self.named.items():
      out[n] = v
    for j, v in enumerate(self.tail):
      out[self.sv.P + j] = v
    return out

  def _fsim_as_node(self):
    tags = {k: {stubmod.TAGS[t] for t in ts} for k, ts in self.tags.items()}
    return (self.btype, self.fn, self.storage(), tags)

  def clone_shallow(self, btype=None):
    m = MNode(btype or self.btype, self.fn, self.sv)
    m.named = dict(self.named)
    m.pos = dict(self.pos)
    m.tail = list(self.tail)
    m.tags = {k: set(v) for k, v in self.tags.items()}
    return m

  # ---- storing (TaggedValue expansion lives here) ------------------------
  def _store(self, key, value):
    """Stores value under storage key (name, or int for positional-only /
    *args positions).  A TaggedValue is expanded into tags + optional value."""
    if isinstance(value, MNode) and value.btype == 'TaggedValueCls':
      tv_tags = value.tags.get('value', set())
      if tv_tags:
        self.tags.setdefault(key, set()).update(tv_tags)
      if 'value' not in value.named:
        return
      value = value.named['value']
    if isinstance(key, str):
      self.named[key] = value
    elif key < self.sv.P:
      self.pos[key] = value
    else:
      j = key - self.sv.P
      if j < len(self.tail):
        self.tail[j] = value
      elif j == len(self.tail):
        self.tail.append(value)
      else:
        raise AssertionError('model: hole in *args')

  # ---- tags ---------------------------------------------------------------
  def tag_key(self, arg):
    sv = self.sv
    if isinstance(arg, str):
      if not self.can_setattr(arg):
        raise Invalid('bad tag argument name')
      return arg
    if arg < 0:
      raise Invalid('negative index')
    if sv.va is None and arg >= sv.P:
      raise Invalid('index out of range')
    if arg < sv.P and sv.prefix[arg].name in sv.pk:
      return sv.prefix[arg].name
    return arg

  def add_tag(self, arg, tag):
    self.tags.setdefault(self.tag_key(arg), set()).add(tag)

  def remove_tag(self, arg, tag):
    k = self.tag_key(arg)
    if tag not in self.tags.get(k, ()):
      raise Invalid('tag not set')
    self.tags[k].discard(tag)

  def clear_tags(self, arg):
    self.tags[self.tag_key(arg)] = set()

  def set_tags(self, arg, tags):
    k = self.tag_key(arg)
    self.tags[k] = set(tags)

  # ---- construction ------------------------------------------------------
  def bind(self, args, kwargs):
    """Constructor binding: Python's own bind_partial decides."""
    try:
      ba = self.sv.sig.bind_partial(*args, **kwargs)
    except TypeError as e:
      raise Invalid(str(e)) from None
    # tags declared by Annotated[...] parameter annotations
    for pname, tags in getattr(self.fn, '_fsim_ann', {}).items():
      if pname in (self.sv.va, self.sv.vk):
        continue      # an annotation of *args / **kwargs tags no single argument
      key = self.sv.index_of[pname] if pname in self.sv.po else pname
      self.tags.setdefault(key, set()).update(tags)
    for name, value in ba.arguments.items():
      if name == self.sv.va:
        for j, v in enumerate(value):
          self._store(self.sv.P + j, v)
      elif name == self.sv.vk:
        for n, v in value.items():
          self._store(n, v)
      elif name in self.sv.po:
        self._store(self.sv.index_of[name], value)
      else:
        self._store(name, value)

  # ---- reads -------------------------------------------------------------
  def slot(self, i):
    """Reported value of prefix position i."""
    p = self.sv.prefix[i]
    if p.name in self.sv.po:
      if i in self.pos:
        return self.pos[i]
    elif p.name in self.named:
      return self.named[p.name]
    if p.default is not _EMPTY:
      return DONTCARE if _is_factory_default(p.default) else p.default
    return NO_VALUE

  def is_set_index(self, i):
    p = self.sv.prefix[i]
    return (i in self.pos) if p.name in self.sv.po else (p.name in self.named)

  def view(self):
    return [self.slot(i) for i in range(self.sv.P)] + list(self.tail)

  def getattr(self, name):
    sv = self.sv
    if name in sv.po or name == sv.va:
      raise Invalid('positional-only / variadic by name')
    if name in self.named:
      return self.named[name]
    d = sv.defaults.get(name, _EMPTY)
    if name in sv.pk or name in sv.ko:
      if d is not _EMPTY:
        if _is_factory_default(d):
          raise Invalid('default_factory')
        return d
    raise Invalid('unset')

  # ---- writes ------------------------------------------------------------
  def can_setattr(self, name):
    sv = self.sv
    if name in sv.pk or name in sv.ko:
      return True
    if name in sv.po or name == sv.va:
      return False
    return sv.vk is not None

  def setattr(self, name, value):
    if not self.can_setattr(name):
      raise Invalid('bad name')
    self._store(name, value)

  def delattr(self, name):
    if name not in self.named:
      raise Invalid('not set')
    del self.named[name]

  def _set_index(self, i, value):
    if i < self.sv.P:
      p = self.sv.prefix[i]
      self._store(i if p.name in self.sv.po else p.name, value)
    else:
      self._store(i, value)

  def _unset_index(self, i):
    p = self.sv.prefix[i]
    if p.name in self.sv.po:
      self.pos.pop(i, None)
    else:
      self.named.pop(p.name, None)

  def _norm_index(self, i):
    n = self.sv.P + len(self.tail)
    if not -n <= i < n:
      raise Invalid('index out of range')
    return i + n if i < 0 else i

  def getitem(self, key):
    v = self.view()
    try:
      return v[key]
    except IndexError:
      raise Invalid('index') from None

  def setitem(self, key, value):
    P = self.sv.P
    n = P + len(self.tail)
    if isinstance(key, int):
      self._set_index(self._norm_index(key), value)
      return
    value = list(value)
    start, stop, step = key.indices(n)
    r = range(start, stop, step)
    if step != 1:
      if len(value) != len(r):
        raise Invalid('extended slice length')
      for i, v in zip(r, value):
        self._set_index(i, v)
      return
    if start >= P and self.sv.va is not None:
      lst = list(self.tail)
      lst[start - P:max(stop, start) - P] = value
      self.tail = lst
      return
    if len(value) != len(r):
      raise Invalid('length-changing slice over fixed prefix')
    for i, v in zip(r, value):
      self._set_index(i, v)

  def delitem(self, key):
    P = self.sv.P
    n = P + len(self.tail)
    if isinstance(key, int):
      idx = [self._norm_index(key)]
    else:
      idx = list(range(*key.indices(n)))
    for i in idx:
      if i < P:
        self._unset_index(i)
    dead = {i - P for i in idx if i >= P}
    self.tail = [v for j, v in enumerate(self.tail) if j not in dead]

  # ---- listings ----------------------------------------------------------
  def ordered_arguments(self, include_var_keyword=True, include_defaults=False,
                        include_unset=False, include_positional=True,
                        include_equal_to_default=True):
    if include_defaults and not include_equal_to_default:
      raise Invalid('mutually exclusive flags')
    sv = self.sv
    out = {}
    for i, p in enumerate(sv.params):
      if p.kind in (p.VAR_POSITIONAL,):
        for j, v in enumerate(self.tail):
          out[sv.P + j] = v
        continue
      if p.kind == p.VAR_KEYWORD:
        continue
      is_po = p.name in sv.po
      if is_po:
        has = sv.index_of[p.name] in self.pos
        val = self.pos.get(sv.index_of[p.name])
      else:
        has = p.name in self.named
        val = self.named.get(p.name)
      present = True
      if has:
        pass
      elif p.default is not _EMPTY:
        if include_defaults:
          val = p.default
        else:
          present = False
      elif include_unset:
        val = NO_VALUE
      else:
        present = False
      if present and not include_equal_to_default:
        if p.default is not _EMPTY and val == p.default:
          present = False
      if present:
        out[sv.index_of[p.name] if is_po else p.name] = val
    if include_var_keyword:
      for n, v in self.named.items():
        if n not in sv.pk and n not in sv.ko:
          out[n] = v
    if not include_positional:
      out = {k: v for k, v in out.items() if isinstance(k, str)}
    return out

  def dir_must_include(self):
    return set(self.sv.pk) | set(self.sv.ko) | set(self.named)

  # ---- call (the property sentence of C01, executed) ---------------------
  def call_args(self):
    """(args, kwargs, gap_default, unformable) for a direct call.

    gap_default: an unset parameter with a default lies before a value that can
    only be passed positionally, so the default is passed explicitly.
    unformable: such a gap has no default -> no call with these arguments
    exists.
    """
    sv = self.sv
    last = -1
    for i in range(sv.P):
      if sv.prefix[i].name in sv.po and i in self.pos:
        last = i
    if self.tail:
      last = sv.P - 1
    args, gap_default, unformable = [], False, False
    for i in range(last + 1):
      if self.is_set_index(i):
        args.append(self.slot(i))
      else:
        d = sv.prefix[i].default
        if d is _EMPTY:
          unformable = True
          args.append(NO_VALUE)
        else:
          gap_default = True
          args.append(d)
    args += self.tail
    kwargs = {}
    for n, v in self.named.items():
      if n in sv.pk and sv.index_of[n] <= last:
        continue   # already passed positionally
      kwargs[n] = v  # (a name of a positional-only / *args parameter here is a
                     # **kwargs entry)
    return args, kwargs, gap_default, unformable


ALL_OA_FLAGS = [
    dict(zip(('include_var_keyword', 'include_defaults', 'include_unset',
              'include_positional', 'include_equal_to_default'), bits))
    for bits in itertools.product((True, False), repeat=5)
]


# equal-but-differently-typed constants (1 == True == 1.0 ...): a traversal that
# memoises by value instead of identity confuses them
CONST_POOL = [0, 1, True, False, 1.0, 0.0, 2, 2.0, (1, 0), (True, False),
              (1.0, 0.0), 'a', ('a',), None]


class Maker:
  """Evaluates a value descriptor on one side ('impl' -> fiddle objects,
  'model' -> MNodes), preserving sharing via descriptor ids.

  Descriptors: leaf JSON values (int / str / None / bool / float), or
    {"list": [...]}, {"tuple": [...]}, {"dict": [[key, desc], ...]},
    {"node": {"btype", "fn", "args": [...], "kwargs": {...}}, "id": n},
    {"share": n}   (a reference to an earlier {"id": n} on the same Maker)
    {"twin": n}    (a FRESH value made again from the descriptor of {"id": n}:
                    equal to it, but another object)
  Containers may carry "id" too.
  """

  def __init__(self, side, stubs, svs=None):
    self.side = side
    self.stubs = stubs          # name -> callable
    self.svs = svs if svs is not None else {}
    self.memo = {}
    self.descs = {}             # id -> descriptor (for twins)
    self.nodes = []             # nodes in creation order

  def sv(self, name):
    v = self.svs.get(name)
    if v is None:
      v = self.svs[name] = SigView(self.stubs[name])
    return v

  def __call__(self, d):
    if not isinstance(d, dict):
      return d
    if 'share' in d:
      return self.memo[d['share']]
    out = self._make(d)
    if 'id' in d:
      self.memo[d['id']] = out
      self.descs[d['id']] = d
    return out

  def _make(self, d):
    if 'twin' in d:
      return self(_without_ids(self.descs[d['twin']]))
    if 'list' in d:
      return [self(e) for e in d['list']]
    if 'tuple' in d:
      return tuple(self(e) for e in d['tuple'])
    if 'dict' in d:
      return {k: self(v) for k, v in d['dict']}
    if 'box' in d:
      return stubmod.TempBox([self(e) for e in d['box']])
    if 'late' in d:
      return stubmod.LateBox([self(e) for e in d['late']])
    if 'nt' in d:
      return stubmod.NT(*[self(e) for e in d['nt']])
    if 'ddict' in d:
      import collections
      return collections.defaultdict(list, {k: self(v) for k, v in d['ddict']})
    if 'hostile' in d:
      return stubmod.Hostile()
    if 'halfcopy' in d:
      # one of two per-Maker objects that cannot be deep-copied (often twice)
      pool = self.__dict__.setdefault('_halfcopy', {})
      if d['halfcopy'] not in pool:
        pool[d['halfcopy']] = stubmod.HalfCopyable(d['halfcopy'])
      return pool[d['halfcopy']]
    if 'novalue' in d:
      return NO_VALUE   # the sentinel itself, explicitly stored as a value
    if 'const' in d:
      return CONST_POOL[d['const'] % len(CONST_POOL)]
    if 'sym' in d:
      # a Python symbol used as a plain argument VALUE (function / class /
      # enum member): the same object on both sides
      name = d['sym']
      if name in self.stubs:
        return self.stubs[name]
      obj = stubmod
      for part in name.split('.'):
        obj = getattr(obj, part)
      return obj
    if 'tv' in d:
      tv = d['tv']
      if self.side == 'impl':
        import fiddle as fdl
        kw = {}
        if 'value' in tv:
          kw['default'] = self(tv['value'])
        tags = [stubmod.TAGS[t] for t in tv['tags']]
        via = tv.get('via')
        if via == 'new' and len(tags) == 1:
          return tags[0].new(**kw)                 # Tag.new(default=...)
        if via == 'with_tags' and 'default' in kw:
          # the buildable path of fiddle.experimental's with_tags (a single tag
          # may be passed bare)
          from fiddle._src.experimental import with_tags as _wt
          return _wt.with_tags.as_buildable(kw['default'],
                                            tags[0] if len(tags) == 1 else tags)
        return fdl.TaggedValue(tags=tags, **kw)
      from fiddle._src import config as _cfg
      node = MNode('TaggedValueCls', _cfg.tagged_value_fn,
                   self.svs.setdefault('__tv__', SigView(_cfg.tagged_value_fn)))
      if 'value' in tv:
        node.named['value'] = self(tv['value'])
      node.tags['value'] = set(tv['tags'])
      return node
    if 'node' in d:
      nd = d['node']
      args = [self(a) for a in nd.get('args', [])]
      kwargs = {k: self(v) for k, v in nd.get('kwargs', {}).items()}
      fn = self.stubs[nd['fn']]
      if self.side == 'model':
        node = MNode(nd['btype'], fn, self.sv(nd['fn']))
        node.bind(args, kwargs)
      else:
        import fiddle as fdl
        cls = {'Config': fdl.Config, 'Partial': fdl.Partial,
               'ArgFactory': fdl.ArgFactory}[nd['btype']]
        node = cls(fn, *args, **kwargs)
      self.nodes.append(node)
      return node
    raise ValueError(f'bad descriptor {d!r}')


def _without_ids(d):
  """The descriptor again, creating nothing that can be referred to."""
  if isinstance(d, list):
    return [_without_ids(e) for e in d]
  if isinstance(d, dict):
    return {k: _without_ids(v) for k, v in d.items() if k != 'id'}
  return d


class Unformable(Exception):
  pass


def model_build(v, memo, flags=None):
  """The C01/C02 sentence, executed: direct calls, children first, exactly one
  call per node instance and one built container per container instance."""
  import functools
  if flags is None:
    flags = {}
  k = id(v)
  if k in memo:
    return memo[k][1]
  if isinstance(v, MNode):
    args, kwargs, gap, unformable = v.call_args()
    if gap:
      flags['gap_default'] = True
    if unformable:
      raise Unformable()
    args = [model_build(a, memo, flags) for a in args]
    kwargs = {n: model_build(a, memo, flags) for n, a in kwargs.items()}
    if v.btype == 'Config':
      out = v.fn(*args, **kwargs)
    elif v.btype == 'Partial':
      out = functools.partial(v.fn, *args, **kwargs)
    elif v.btype == 'TaggedValueCls':
      if 'value' not in kwargs:
        raise Unformable('TaggedValue without a value')
      return kwargs['value']
    else:
      raise NotImplementedError(v.btype)
  elif isinstance(v, list):
    out = [model_build(e, memo, flags) for e in v]
  elif isinstance(v, tuple) and hasattr(v, '_fields'):
    out = type(v)(*[model_build(e, memo, flags) for e in v])
  elif isinstance(v, tuple):
    out = tuple(model_build(e, memo, flags) for e in v)
  elif isinstance(v, dict):
    import collections
    items = {kk: model_build(e, memo, flags) for kk, e in v.items()}
    out = (collections.defaultdict(v.default_factory, items)
           if isinstance(v, collections.defaultdict) else items)
  elif isinstance(v, stubmod.TempBox):
    out = stubmod.TempBox([model_build(e, memo, flags) for e in v.children])
  elif isinstance(v, stubmod.LateBox):
    out = stubmod.LateBox([model_build(e, memo, flags) for e in v.children])
  else:
    return v
  memo[k] = (v, out)
  return out
