"""Batch driver behind ./check: lanes, replay confirmation, known findings,
evidence.  Exit codes: 0 held / 1 VIOLATION / 2 HARNESS-ERROR.
"""
from __future__ import annotations

import argparse
import collections
import json
import os
import shutil
import subprocess
import sys
import time

VERIF = os.path.dirname(os.path.dirname(os.path.abspath(__file__)))
PY = '/venv/bin/python'
LANES = 16
HASHSEEDS = ['0', '1', '2', '3']
_shift = int(os.environ.get('FSIM_HASHSEED_SHIFT', '0') or 0)
if _shift:   # determinism self-test: same seeds under other hash seeds
  HASHSEEDS = [str(int(h) + 100 * _shift) for h in HASHSEEDS]


def load_known():
  path = os.path.join(VERIF, 'known_findings.jsonl')
  out = []
  if os.path.exists(path):
    for line in open(path):
      line = line.strip()
      if line and not line.startswith('#'):
        out.append(json.loads(line))
  return out


def setarch_prefix():
  exe = shutil.which('setarch')
  if not exe:
    return []
  try:
    r = subprocess.run([exe, 'x86_64', '-R', 'true'], capture_output=True,
                       timeout=20)
    if r.returncode == 0:
      return [exe, 'x86_64', '-R']
  except Exception:  # pylint: disable=broad-except
    pass
  return []


class Env:
  """Process environment shared by all lanes of one ./check invocation."""

  def __init__(self):
    self.prefix = setarch_prefix()
    self.root = os.path.join(VERIF, '.cache', f'run-{os.getpid()}')
    self.pyc = os.path.join(self.root, 'pyc')
    os.makedirs(self.pyc, exist_ok=True)
    self.n = 0

  def environ(self, hashseed):
    env = {
        'PATH': os.environ.get('PATH', '/usr/bin:/bin'),
        'PYTHONHASHSEED': hashseed,
        # FSIM_REPO: run against a snapshot of the repository instead of the
        # editable install (background soaks while /repo is being edited)
        'PYTHONPATH': (os.environ['FSIM_REPO'] + os.pathsep if os.environ.get('FSIM_REPO') else '') + VERIF,
        'PYTHONPYCACHEPREFIX': self.pyc,
        'HOME': os.environ.get('HOME', '/root'),
        'FIDDLE_VERIF': '1',
    }
    return env

  def spawn(self, job, hashseed):
    # Output goes to files, not pipes: a lane must never block on a full pipe
    # while the driver is only polling.
    self.n += 1
    base = os.path.join(self.root, f'p{self.n}')
    with open(base + '.in', 'w') as f:
      json.dump(job, f)
    p = subprocess.Popen(
        self.prefix + [PY, '-m', 'fsim.worker'], cwd=VERIF,
        env=self.environ(hashseed), stdin=open(base + '.in', 'rb'),
        stdout=open(base + '.out', 'wb'), stderr=open(base + '.err', 'wb'))
    p.fsim_base = base
    return p

  @staticmethod
  def output(p):
    with open(p.fsim_base + '.out', 'rb') as f:
      out = f.read()
    with open(p.fsim_base + '.err', 'rb') as f:
      err = f.read()
    return out, err

  def call(self, job, hashseed, timeout):
    p = self.spawn(job, hashseed)
    try:
      p.wait(timeout=timeout)
    except subprocess.TimeoutExpired:
      p.kill()
      return None, 'timeout'
    out, err = self.output(p)
    if p.returncode != 0:
      return None, err.decode(errors='replace')[-4000:]
    try:
      return json.loads(out), None
    except ValueError:
      return None, 'bad output: ' + out.decode(errors='replace')[-2000:] + err.decode(errors='replace')[-2000:]

  def cleanup(self):
    shutil.rmtree(self.root, ignore_errors=True)


def fp_slug(fp):
  s = '-'.join(str(fp.get(k)) for k in ('clause', 'op') if fp.get(k))
  return ''.join(c if c.isalnum() or c in '-_' else '_' for c in s)[:60]


def run_check(prop, tier, seed, spec, args):
  from fsim import registry
  t0 = time.monotonic()
  env = Env()
  try:
    return _run_check(prop, tier, seed, spec, args, env, t0)
  finally:
    env.cleanup()


def _run_check(prop, tier, seed, spec, args, env, t0):
  known = [k for k in load_known() if k['property'] == prop]
  tp = spec['tiers'][tier]
  count = args.count or tp['count']
  budget = args.budget or tp['budget_s']
  jobs = args.jobs or min(LANES, os.cpu_count() or 1)
  # warm-up: byte-compile everything once, before any lane starts
  _, err = env.call({'mode': 'warm', 'machines': [spec['machine']]}, '0', 300)
  if err:
    print(f'HARNESS-ERROR property={prop} warm-up failed: {err}')
    return 2
  hard = budget * 3 + 120
  pending = list(range(LANES))
  running = {}
  results = {}
  errors = []
  while pending or running:
    while pending and len(running) < jobs:
      lane = pending.pop(0)
      job = {'mode': 'seeds', 'machine': spec['machine'], 'property': prop,
             'tier': tier, 'seed': seed, 'lane': lane, 'lanes': LANES,
             'count': count, 'budget_s': budget, 'known': known,
             'hard_timeout_s': hard, 'digests': bool(args.digests)}
      running[lane] = (env.spawn(job, HASHSEEDS[lane % len(HASHSEEDS)]),
                       time.monotonic())
    time.sleep(0.05)
    for lane, (p, started) in list(running.items()):
      if p.poll() is None:
        if time.monotonic() - started > hard + 30:
          p.kill()
          errors.append(f'lane {lane}: wall timeout')
          del running[lane]
        continue
      out, err = env.output(p)
      del running[lane]
      if p.returncode != 0:
        errors.append(f'lane {lane}: exit {p.returncode}: '
                      + err.decode(errors='replace')[-3000:])
        continue
      try:
        results[lane] = json.loads(out)
      except ValueError:
        errors.append(f'lane {lane}: bad output {out[-500:]!r} {err[-1500:]!r}')
  # ---- aggregate ---------------------------------------------------------
  agg = collections.Counter()
  faults, probes, discarded, other = (collections.Counter() for _ in range(4))
  states, scheds, nontrivial = set(), set(), set()
  samples, violations, harness_errors = [], [], []
  known_hits = {}
  stopped = False
  digests = []
  for lane in sorted(results):
    r = results[lane]
    agg['runs'] += r['runs']
    agg['steps'] += r['steps']
    agg['shrink_execs'] += r['shrink_execs']
    faults.update(r['faults'])
    probes.update(r['probes'])
    discarded.update(r['discarded'])
    other.update(r['other_property_violations'])
    states.update(r['states'])
    scheds.update(r['scheds'])
    nontrivial.update(r['nontrivial'])
    samples += r['samples']
    violations += [dict(v, lane=lane) for v in r['violations']]
    harness_errors += r['harness_errors']
    stopped = stopped or r['stopped_by_budget']
    digests += r.get('digest', [])
    for kid, ent in r['known'].items():
      e = known_hits.setdefault(kid, {'count': 0, 'example': ent['example']})
      e['count'] += ent['count']
  for k in known:
    if k.get('status', 'known') == 'known' and k['id'] in known_hits:
      print(f'KNOWN-FINDING: property={prop} {k["what"]} '
            f'(seen {known_hits[k["id"]]["count"]}x this run)')
  rc = 0
  if errors or harness_errors:
    rc = 2
    for e in errors:
      print(f'HARNESS-ERROR property={prop} {e}')
    for h in harness_errors[:3]:
      print(f'HARNESS-ERROR property={prop} run={h["run"]}\n{h["error"]}')
  # ---- confirm violations in a fresh process, then report ----------------
  reported = []
  seen_fp = set()
  for v in violations:
    key = json.dumps(v['fp'], sort_keys=True)
    if key in seen_fp:
      continue
    seen_fp.add(key)
    hs = HASHSEEDS[v['lane'] % len(HASHSEEDS)]
    rdir = os.path.join(VERIF, 'replays', prop)
    os.makedirs(rdir, exist_ok=True)
    path = os.path.join(rdir, f'{fp_slug(v["fp"])}-{seed}-{v["run"]}.json')
    doc = {'property': prop, 'machine': spec['machine'], 'fp': v['fp'],
           'seed': seed, 'run': v['run'], 'hashseed': hs, 'msg': v['msg'],
           'orig_ops': v['orig_ops'], 'min_ops': v['min_ops'],
           'case': v['case']}
    with open(path, 'w') as f:
      json.dump(doc, f, indent=1, sort_keys=True, default=repr)
    out, err = env.call({'mode': 'replay', 'machine': spec['machine'],
                         'case': v['case'], 'fp': v['fp'],
                         'hard_timeout_s': 300}, hs, 400)
    if err or out is None or 'harness_error' in (out or {}):
      print(f'HARNESS-ERROR property={prop} replay failed: '
            f'{err or out.get("harness_error")}')
      rc = 2
      continue
    if not out['reproduced'] and v.get('orig_case') is not None:
      # The minimised case can be over-fitted to the heap layout of the lane it
      # was shrunk in (address-recycling bugs).  Fall back to the case as it was
      # generated; if THAT fails in a fresh process it is reported unminimised.
      out2, err2 = env.call({'mode': 'replay', 'machine': spec['machine'],
                             'case': v['orig_case'], 'fp': v['fp'],
                             'hard_timeout_s': 300}, hs, 400)
      if not err2 and out2 and out2.get('reproduced'):
        doc['case'] = v['orig_case']
        doc['msg'] = v.get('orig_msg', v['msg'])
        doc['min_ops'] = v['orig_ops']
        doc['note'] = ('reported unminimised: the minimised form did not '
                       'reproduce in a fresh process (heap-layout dependent)')
        with open(path, 'w') as f:
          json.dump(doc, f, indent=1, sort_keys=True, default=repr)
        v = dict(v, msg=doc['msg'], min_ops=v['orig_ops'])
        out = out2
    if not out['reproduced']:
      print(f'HARNESS-ERROR property={prop} violation did not reproduce in a '
            f'fresh process: {path}')
      rc = 2
      continue
    print(f'VIOLATION property={prop} replay={path}')
    print(f'  {v["msg"]}')
    print(f'  fingerprint={json.dumps(v["fp"], sort_keys=True)} '
          f'ops {v["orig_ops"]} -> {v["min_ops"]}')
    reported.append(path)
    if rc == 0:
      rc = 1
  wall = time.monotonic() - t0
  # ---- evidence ----------------------------------------------------------
  if agg['runs'] > 0:
    ev = {
        'property_id': prop, 'tier': tier, 'seed': int(seed),
        'level': spec['level'],
        'coverage': {
            'evaluations': agg['runs'],
            'distinct_nontrivial': len(nontrivial),
            'rule': spec['rule'],
            'samples': samples[:4] or [{'note': 'no nontrivial sample'}],
            'seeds': f'{seed}/{spec["machine"]}/0..{count - 1} '
                     f'(16 lanes; {agg["runs"]} executed'
                     + (', stopped by wall budget' if stopped else '') + ')',
            'runs_per_hour': int(agg['runs'] / max(wall, 1e-6) * 3600),
            'steps': agg['steps'],
            'simulated_time': 'n/a: fiddle reads no clock; steps are reported',
            'faults_fired': dict(faults),
            'probes': dict(probes),
            'distinct_schedules': len(scheds),
            'distinct_model_states': len(states),
            'discarded': dict(discarded),
            'violations_of_other_properties_seen_not_reported': dict(other),
            'known_findings_hit': {k: v['count'] for k, v in known_hits.items()},
            'shrink_reexecutions': agg['shrink_execs'],
            'real_vs_stub': spec['real_vs_stub'],
            'exhaustive': False,
        },
        'assumptions': spec['assumptions'],
        'wall_s': round(wall, 2),
        'violations': len(reported),
    }
    ev['coverage'].update(spec.get('coverage_extra', {}))
    os.makedirs(os.path.join(VERIF, 'evidence'), exist_ok=True)
    with open(os.path.join(VERIF, 'evidence', f'{prop}.json'), 'w') as f:
      json.dump(ev, f, indent=1, sort_keys=True, default=repr)
  if args.digests:
    print('DIGESTS ' + json.dumps(sorted(digests)))
  zero = [p for p in spec.get('required_probes', []) if not probes.get(p)]
  summary = (f'{prop} tier={tier} seed={seed} runs={agg["runs"]} '
             f'steps={agg["steps"]} nontrivial={len(nontrivial)} '
             f'states={len(states)} scheds={len(scheds)} '
             f'faults={dict(faults)} wall={wall:.1f}s rc={rc}')
  print(summary)
  if zero:
    print(f'NOTE property={prop} probes stuck at zero: {zero}')
  return rc


def run_replay(prop, path, spec):
  env = Env()
  try:
    doc = json.load(open(path))
    out, err = env.call({'mode': 'replay', 'machine': doc['machine'],
                         'case': doc['case'], 'fp': doc.get('fp'),
                         'hard_timeout_s': 300}, doc.get('hashseed', '0'), 400)
    if err or 'harness_error' in out:
      print(f'HARNESS-ERROR property={prop} replay: {err or out["harness_error"]}')
      return 2
    for v in out['violations']:
      print(f'  {v["fp"]["property"]} {v["fp"].get("clause")}: {v["msg"]}')
    if out['reproduced']:
      print(f'VIOLATION property={prop} replay={path}')
      return 1
    print(f'replay of {path}: no violation')
    return 0
  finally:
    env.cleanup()


def main(argv=None):
  from fsim import registry
  ap = argparse.ArgumentParser()
  ap.add_argument('property')
  ap.add_argument('--tier', default=os.environ.get('VERIF_TIER') or 'quick')
  ap.add_argument('--replay')
  ap.add_argument('--count', type=int)
  ap.add_argument('--budget', type=float)
  ap.add_argument('--jobs', type=int)
  ap.add_argument('--digests', action='store_true')
  args = ap.parse_args(argv)
  prop = args.property
  spec = registry.CHECKS.get(prop)
  if spec is None:
    print(f'unknown or not-applicable property {prop}')
    return 2
  if args.replay:
    return run_replay(prop, args.replay, spec)
  seed = os.environ.get('VERIF_SEED') or '0'
  try:
    int(seed)
  except ValueError:
    seed = '0'
  print(f'VERIF_SEED={seed} property={prop} tier={args.tier}')
  return run_check(prop, args.tier, seed, spec, args)


if __name__ == '__main__':
  sys.exit(main())
