"""Minimisation of a failing case: generic greedy loop + ddmin over lists.

A candidate is kept only if the SAME fingerprint reappears.  Bounded by a
re-execution budget.  Nothing here draws random numbers.
"""
from __future__ import annotations

import copy


def ddmin_candidates(lst):
  """Yields shorter versions of lst: drop halves, quarters, ..., singles."""
  n = len(lst)
  if n == 0:
    return
  chunk = max(1, n // 2)
  while True:
    for start in range(0, n, chunk):
      yield lst[:start] + lst[start + chunk:]
    if chunk == 1:
      break
    chunk = max(1, chunk // 2)


def get_path(obj, path):
  for p in path:
    obj = obj[p]
  return obj


def with_path(obj, path, value):
  obj = copy.deepcopy(obj)
  tgt = obj
  for p in path[:-1]:
    tgt = tgt[p]
  tgt[path[-1]] = value
  return obj


def shrink(case, run_and_match, candidates_fn, budget=300, max_seconds=45.0):
  """Greedy: take the first candidate that still matches, restart.

  Bounded by a re-execution budget AND by wall time (big cases are slow to
  re-run; minimisation is a convenience and must never starve the report).
  The clock only decides when to STOP shrinking, never what a run does.
  """
  import time
  t0 = time.monotonic()
  execs = 0
  improved = True
  while improved and execs < budget:
    improved = False
    for cand in candidates_fn(case):
      if execs >= budget or time.monotonic() - t0 > max_seconds:
        return case, execs
      execs += 1
      if run_and_match(cand):
        case = cand
        improved = True
        break
  return case, execs
