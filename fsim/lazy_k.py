"""A module whose import takes a while and REBINDS a name at the end (C09: a
load in another thread must wait for the import, not pick up the half-made
module).  Never imported by the harness itself; only through load_json."""
from fsim import stubmod as _stubmod


def make(uid, x='d_x'):
  return ('pre-wrap', uid, x)


_stubmod.lazy_pause()     # ... a slow import: other threads get to run here


def _wrap(f):
  def make(uid, x='d_x'):   # pylint: disable=redefined-outer-name
    return ('wrapped', f(uid, x))
  make.__module__ = __name__
  make.__qualname__ = 'make'
  return make


make = _wrap(make)
_stubmod.lazy_pause()
