"""Canonical form of configurations / built values, written without daglish.

canon(x) is JSON-able.  Every mutable object (Buildable or model node, list,
dict, set, stub result, and tuples that transitively contain one) is numbered by
first visit, so equal canons <=> same types, callables, leaves, tags AND
sharing.  canon((a, b, ...)) of several roots exposes sharing between roots.

Works on real fiddle objects and on model nodes (fsim.model.MNode) alike, so
that `canon(impl) == canon(model)` is the comparison every machine uses.
"""
from __future__ import annotations

import collections
import dataclasses
import enum
import functools
import re
import types

from fiddle._src import config as _cfg
from fiddle._src import signatures as _sigs

from fsim import stubmod

_ADDR = re.compile(r'0x[0-9a-fA-F]+')


def norm_text(s: str) -> str:
  return _ADDR.sub('0x…', s)


def fn_name(fn):
  if isinstance(fn, functools.partial):
    return 'partial:' + fn_name(fn.func)
  mod = getattr(fn, '__module__', None)
  qn = getattr(fn, '__qualname__', None)
  if qn is None:
    qn = type(fn).__qualname__ + '()'
    mod = type(fn).__module__
  return f'{mod}.{qn}'


def key_repr(k):
  return ('i%06d' % k) if isinstance(k, int) else 's' + str(k)


def tag_name(t):
  n = stubmod.TAG_NAMES.get(t)
  return n if n is not None else getattr(t, '__qualname__', repr(t))


class _Canon:

  def __init__(self, with_tags=True, opaque_callables=False, kw_unordered=False):
    self.kw_unordered = kw_unordered
    self.opaque_callables = opaque_callables
    self.ids = {}
    self.keep = []  # pin visited objects so ids are not recycled
    self.with_tags = with_tags
    self._mut_cache = {}

  # -- helpers -------------------------------------------------------------
  def _number(self, obj):
    oid = id(obj)
    n = self.ids.get(oid)
    if n is not None:
      return n, True
    n = len(self.ids)
    self.ids[oid] = n
    self.keep.append(obj)
    return n, False

  def _kw(self, v):
    """The **kwargs dict a stub received; by key if their order is unspecified."""
    if self.kw_unordered and type(v) is dict:
      n, seen = self._number(v)
      if seen:
        return {'ref': n}
      return {'#': n, 'dict': [[self.go(k), self.go(v[k])] for k in sorted(v, key=repr)]}
    return self.go(v)

  def _has_mutable(self, x, depth=0):
    """True if tuple x transitively contains a numbered (mutable) object."""
    if isinstance(x, tuple):
      return any(self._has_mutable(e, depth + 1) for e in x)
    return not _is_leaf(x)

  # -- main ----------------------------------------------------------------
  def go(self, x):
    if _is_leaf(x):
      return leaf(x)
    node = as_node(x)
    if node is not None:
      n, seen = self._number(x)
      if seen:
        return {'ref': n}
      btype, fn, args, tags = node
      out = {'#': n, 'B': btype, 'fn': fn_name(fn) if not isinstance(fn, str) else fn}
      out['args'] = [[key_repr(k), self.go(v)]
                     for k, v in sorted(args.items(), key=lambda kv: key_repr(kv[0]))]
      if self.with_tags:
        out['tags'] = [[key_repr(k), sorted(tag_name(t) for t in ts)]
                       for k, ts in sorted(tags.items(), key=lambda kv: key_repr(kv[0]))
                       if ts]
      return out
    if isinstance(x, tuple):
      is_nt = hasattr(x, '_fields')
      if self._has_mutable(x):
        n, seen = self._number(x)
        if seen:
          return {'ref': n}
        out = {'#': n, 'tuple': [self.go(e) for e in x]}
      else:
        out = {'tuple': [self.go(e) for e in x]}
      if is_nt:
        out['nt'] = type(x).__qualname__
      return out
    if isinstance(x, list):
      n, seen = self._number(x)
      if seen:
        return {'ref': n}
      return {'#': n, 'list': [self.go(e) for e in x]}
    if isinstance(x, dict):
      n, seen = self._number(x)
      if seen:
        return {'ref': n}
      out = {'#': n, 'dict': [[self.go(k), self.go(v)] for k, v in x.items()]}
      if type(x) is not dict:
        out['dt'] = type(x).__qualname__
        if isinstance(x, collections.defaultdict):
          out['df'] = fn_name(x.default_factory) if x.default_factory else None
      return out
    if isinstance(x, (set, frozenset)):
      n, seen = self._number(x)
      if seen:
        return {'ref': n}
      items = sorted((self.go(e) for e in x), key=repr)
      return {'#': n, type(x).__name__: items}
    if isinstance(x, stubmod.TempBox):
      n, seen = self._number(x)
      if seen:
        return {'ref': n}
      return {'#': n, 'box': [self.go(e) for e in x.children]}
    if isinstance(x, stubmod.LateBox):
      n, seen = self._number(x)
      if seen:
        return {'ref': n}
      return {'#': n, 'late': [self.go(e) for e in x.children]}
    if isinstance(x, stubmod.Rec):
      n, seen = self._number(x)
      if seen:
        return {'ref': n}
      return {'#': n, 'rec': x.stub,
              'args': [[k, self._kw(v) if k == 'kw' else self.go(v)]
                       for k, v in sorted(x.args.items())]}
    rec = getattr(x, '_fsim_rec', None)
    if isinstance(rec, stubmod.Rec):
      n, seen = self._number(x)
      if seen:
        return {'ref': n}
      return {'#': n, 'obj': rec.stub,
              'args': [[k, self.go(v)] for k, v in sorted(rec.args.items())]}
    if self.opaque_callables and (isinstance(x, functools.partial)
                                  or getattr(x, '_fsim_callable', False)):
      n, seen = self._number(x)
      if seen:
        return {'ref': n}
      return {'#': n, 'callable': 1}
    if isinstance(x, functools.partial):
      n, seen = self._number(x)
      if seen:
        return {'ref': n}
      return {'#': n, 'partial': self.go(x.func),
              'pargs': [self.go(e) for e in x.args],
              'pkw': [[k, self.go(v)] for k, v in sorted(x.keywords.items())]}
    if dataclasses.is_dataclass(x) and not isinstance(x, type):
      n, seen = self._number(x)
      if seen:
        return {'ref': n}
      return {'#': n, 'dc': type(x).__qualname__,
              'f': [[f.name, self.go(getattr(x, f.name, None))]
                    for f in dataclasses.fields(x)]}
    if getattr(x, '_fsim_plain', False):
      n, seen = self._number(x)
      if seen:
        return {'ref': n}
      return {'#': n, 'plain': [[k, self.go(v)] for k, v in x.__dict__.items()]}
    if isinstance(x, stubmod.ConstObj):
      return {'const': x is stubmod.CONST_OBJ}
    if isinstance(x, slice):
      return {'slice': [self.go(x.start), self.go(x.stop), self.go(x.step)]}
    n, seen = self._number(x)
    if seen:
      return {'ref': n}
    return {'#': n, 'opaque': type(x).__qualname__}


def _is_leaf(x):
  if x is None or isinstance(x, (bool, int, float, complex, str, bytes)):
    return True
  if isinstance(x, _sigs.NoValue):
    return True
  if x is _sigs.VARARGS:
    return True
  if isinstance(x, enum.Enum):
    return True
  if isinstance(x, (type, types.FunctionType, types.BuiltinFunctionType,
                    types.MethodType)):
    return True
  t = type(x)
  if t.__module__ == 'fsim.stubmod' and t.__name__.endswith(('_I', '_U')):
    return True   # callable-instance stub: identified by its class
  return False


def leaf(x):
  if x is None:
    return None
  if isinstance(x, enum.Enum):
    return {'enum': f'{type(x).__qualname__}.{x.name}'}
  if type(x) not in (bool, int, float, complex, str, bytes) and isinstance(
      x, (int, float, complex, str, bytes)):
    # a subclass of a primitive: its type is part of the value
    base = next(t for t in (bool, int, float, complex, str, bytes)
                if isinstance(x, t))
    return {'subclass': type(x).__qualname__, 'of': leaf(base(x))}
  if isinstance(x, bool):
    return x
  if isinstance(x, int):
    return {'int': str(x)}
  if isinstance(x, float):
    return {'float': repr(x)}
  if isinstance(x, complex):
    return {'complex': repr(x)}
  if isinstance(x, str):
    return x
  if isinstance(x, bytes):
    return {'bytes': x.hex()}
  if isinstance(x, _sigs.NoValue):
    # the sentinel is a singleton: a look-alike instance is NOT it
    return {'NO_VALUE': 1} if x is _sigs.NO_VALUE else {'NO_VALUE': 'another instance'}
  if x is _sigs.VARARGS:
    return {'VARARGS': 1}
  if isinstance(x, enum.Enum):
    return {'enum': f'{type(x).__qualname__}.{x.name}'}
  if isinstance(x, types.MethodType):
    recv = x.__self__
    return {'fn': fn_name(x),
            'self': fn_name(recv) if isinstance(recv, type) else 'instance of ' + type(recv).__qualname__}
  return {'fn': fn_name(x)}


def as_node(x):
  """(btype, fn, args, tags) for a Buildable or a model node, else None."""
  if isinstance(x, _cfg.Buildable):
    return (type(x).__name__, x.__fn_or_cls__, x.__arguments__,
            x.__argument_tags__)
  f = getattr(x, '_fsim_as_node', None)
  if f is not None:
    return f()
  return None


def canon(x, with_tags=True, opaque_callables=False, kw_unordered=False):
  return _Canon(with_tags=with_tags, opaque_callables=opaque_callables,
                kw_unordered=kw_unordered).go(x)


def canon_exc(e):
  return {'exc': type(e).__name__, 'msg': norm_text(str(e))[:300]}


def diff(a, b, path='$', out=None, limit=5):
  """Small structural diff of two canons, for messages."""
  if out is None:
    out = []
  if len(out) >= limit:
    return out
  if type(a) is not type(b):
    out.append(f'{path}: {short(a)} != {short(b)}')
  elif isinstance(a, dict):
    for k in sorted(set(a) | set(b)):
      if k not in a or k not in b:
        out.append(f'{path}.{k}: {short(a.get(k, "<absent>"))} != {short(b.get(k, "<absent>"))}')
      else:
        diff(a[k], b[k], f'{path}.{k}', out, limit)
  elif isinstance(a, list):
    if len(a) != len(b):
      out.append(f'{path}: len {len(a)} != {len(b)}: {short(a)} != {short(b)}')
    else:
      for i, (x, y) in enumerate(zip(a, b)):
        diff(x, y, f'{path}[{i}]', out, limit)
  elif a != b:
    out.append(f'{path}: {short(a)} != {short(b)}')
  return out


def short(x, n=160):
  import json
  s = json.dumps(x, default=repr, sort_keys=True)
  return s if len(s) <= n else s[:n] + '…'
