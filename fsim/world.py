"""One integer decides everything: named PRNG sub-streams derived from a seed.

No function in this module reads a clock or any other ambient source.
"""
from __future__ import annotations

import hashlib
import random


class World:
  """Seed -> named, independent random streams (gen / sched / fault / swarm)."""

  def __init__(self, seed):
    self.seed = str(seed)
    self._streams = {}

  def stream(self, name: str) -> random.Random:
    r = self._streams.get(name)
    if r is None:
      digest = hashlib.sha256(f'{self.seed}/{name}'.encode()).digest()
      r = random.Random(int.from_bytes(digest[:16], 'big'))
      self._streams[name] = r
    return r


def stable_hash(obj) -> str:
  """Hash of a JSON-able object that does not depend on PYTHONHASHSEED."""
  import json
  s = json.dumps(obj, sort_keys=True, default=repr, separators=(',', ':'))
  return hashlib.sha1(s.encode()).hexdigest()[:16]
