"""Property -> machine, tiers, level, and the static parts of the evidence."""

REAL = ('real: every line of /repo/fiddle/_src reached by the operations '
        '(editable install of the current working tree); ')

CHECKS = {}


def _add(prop, **kw):
  CHECKS[prop] = kw


_add(
    'C03', machine='edit', level='exploration',
    tiers={'quick': {'count': 6000, 'budget_s': 40},
           'thorough': {'count': 400000, 'budget_s': 780}},
    rule=('seeded operation histories (get/set/del by name, index, negative '
          'index, VARARGS, slice; valid and deliberately invalid) on one '
          'Buildable over a generated signature, lock-step against ArgModel; '
          'a run is non-trivial if it applied >=3 state-changing edits or >=1 '
          'rejected op; distinct = distinct case hash'),
    real_vs_stub=REAL + 'stub: the configured callables (generated per run), '
                 'the ArgModel oracle',
    assumptions=['inspect.signature is the ground truth for the signature',
                 'ArgModel (DESIGN Appendix A) encodes the property sentence',
                 'sampling, not exhaustive'],
    required_probes=['tail_changed', 'tail_compaction_shifted'],
    level_text=('seeded search over edit histories x signature shapes x '
                'deliberately invalid operations, every observation the '
                'property lists compared with a list/dict reference model '
                'after every operation; evidence, not proof'),
    design_ref='DESIGN.md 4 (C03), Appendix A',
    level_note=('trusted: inspect.signature, the ArgModel (Appendix A), canon; '
                'sampled histories of <= 25 ops on signatures with <= 2 '
                'positional-only, <= 3 positional-or-keyword, <= 2 keyword-only '
                'parameters'),
    technique=('deterministic simulation: seeded operation histories with '
               'injected rejected operations, lock-step reference model, '
               'shrinking + replay'),
)
_add(
    'C01', machine='edit', level='exploration',
    tiers={'quick': {'count': 6000, 'budget_s': 40},
           'thorough': {'count': 400000, 'budget_s': 780}},
    rule=('same histories as C03 with `build` allowed after any prefix; '
          'oracle = direct call of the stub with the arguments the model says '
          'are configured; unformable => build must raise; non-trivial / '
          'distinct as for C03'),
    real_vs_stub=REAL + 'stub: the configured callables, the CallModel oracle',
    assumptions=['a gap filled by passing the default explicitly is '
                 'indistinguishable to the callee',
                 'sampling, not exhaustive'],
    required_probes=['build_ok', 'build_unformable', 'build_gap_default'],
    level_text=('seeded search; build is one more operation of the edit '
                'machine, allowed after any prefix of edits, and its result is '
                'compared with a direct call of the same callable with the '
                'arguments the model says are configured. Reaches the two '
                'clauses that depend on history/failure: states only edit '
                'histories can produce (gaps before set *args) and "cannot '
                'form the call => raises". For constructor-only configs this '
                'is plain differential testing and is claimed as no more'),
    design_ref='DESIGN.md 4 (C01)',
    level_note=('trusted: Python call semantics, ArgModel.call_args; passing '
                'the default explicitly for a gap is treated as equivalent; '
                'build refusing a gap that has a default is accepted'),
    technique=('deterministic simulation: seeded edit histories, direct-call '
               'oracle (CallModel), shrinking + replay'),
)
