"""Property -> machine, tiers, level, and the static parts of the evidence."""

REAL = ('real: every line of /repo/fiddle/_src reached by the operations '
        '(editable install of the current working tree); ')

CHECKS = {}


def _add(prop, **kw):
  CHECKS[prop] = kw


_add(
    'C03', machine='edit', level='exploration',
    tiers={'quick': {'count': 15000, 'budget_s': 40},
           'thorough': {'count': 400000, 'budget_s': 780}},
    rule=('seeded operation histories (get/set/del by name, index, negative '
          'index, VARARGS, slice; valid and deliberately invalid) on one '
          'Buildable over a generated signature, lock-step against ArgModel; '
          'values include equal-but-differently-typed constants, "twins" (equal, '
          'another object) and values chosen equal to what the slot holds; '
          'some edits run under suspend_tracking; the config is swapped for its '
          'copy / deepcopy / pickle between edits (a value that cannot be '
          'deep-copied makes that a refusal that must change nothing); an '
          'equal-signature decoy callable may be configured first; slice '
          'assignments whose right-hand side raises while it is iterated (must '
          'fail without writing, or succeed completely); defaults that are '
          'numbers of three types or an opaque object; '
          'a run is non-trivial if it applied >=3 state-changing edits or >=1 '
          'rejected op; distinct = distinct case hash'),
    real_vs_stub=REAL + 'stub: the configured callables (generated per run), '
                 'the ArgModel oracle',
    assumptions=['inspect.signature is the ground truth for the signature',
                 'ArgModel (DESIGN Appendix A) encodes the property sentence',
                 'sampling, not exhaustive'],
    required_probes=['tail_changed', 'tail_compaction_shifted',
                     'edit_while_tracking_suspended', 'swapped_for_copy',
                     'uncopyable_refused', 'equal_signature_decoy_first'],
    level_text=('seeded search over edit histories x signature shapes x '
                'deliberately invalid operations, every observation the '
                'property lists compared with a list/dict reference model '
                'after every operation; evidence, not proof'),
    design_ref='DESIGN.md 4 (C03), Appendix A',
    level_note=('trusted: inspect.signature, the ArgModel (Appendix A), canon; '
                'sampled histories of <= 25 ops on signatures with <= 2 '
                'positional-only, <= 3 positional-or-keyword, <= 2 keyword-only '
                'parameters'),
    technique=('deterministic simulation: seeded operation histories with '
               'injected rejected operations and refused copies, lock-step '
               'reference model, shrinking + replay'),
)
_add(
    'C01', machine='edit', level='exploration',
    tiers={'quick': {'count': 15000, 'budget_s': 40},
           'thorough': {'count': 400000, 'budget_s': 780}},
    rule=('same histories as C03 with `build` allowed after any prefix; '
          'oracle = direct call of the stub with the arguments the model says '
          'are configured; unformable => build must raise; faults: a nested '
          'callable raises (one of six classes) => f must not be called with '
          'what is left; callees that modify the containers they are given => '
          'the reported arguments must not change by building; when the edit '
          'view diverges from the model a build is compared right there; '
          'non-trivial / distinct as for C03'),
    real_vs_stub=REAL + 'stub: the configured callables, the CallModel oracle',
    assumptions=['a gap filled by passing the default explicitly is '
                 'indistinguishable to the callee',
                 'sampling, not exhaustive'],
    required_probes=['build_ok', 'build_unformable', 'build_gap_default',
                     'build_with_failing_child', 'build_with_mutating_callee'],
    level_text=('seeded search; build is one more operation of the edit '
                'machine, allowed after any prefix of edits, and its result is '
                'compared with a direct call of the same callable with the '
                'arguments the model says are configured. Reaches the two '
                'clauses that depend on history/failure: states only edit '
                'histories can produce (gaps before set *args) and "cannot '
                'form the call => raises". For constructor-only configs this '
                'is plain differential testing and is claimed as no more'),
    design_ref='DESIGN.md 4 (C01)',
    level_note=('trusted: Python call semantics, ArgModel.call_args; passing '
                'the default explicitly for a gap is treated as equivalent; '
                'build refusing a gap that has a default is accepted'),
    technique=('deterministic simulation with fault injection: seeded edit '
               'histories, failing / mutating callables, direct-call oracle '
               '(CallModel), shrinking + replay'),
)

_BUILD_RVS = REAL + ('stub: configured callables (fresh per run, consult the '
                     'fault plan), hostile __repr__ objects, TempBox node type')
_add(
    'C05', machine='build', level='fault_enumeration',
    tiers={'quick': {'count': 12000, 'budget_s': 45},
           'thorough': {'count': 600000, 'budget_s': 800}},
    rule=('seeded random DAG (<= 12 nodes + optional chain of depth 20-60; '
          'Config/Partial, lists, tuples, dicts, named tuples, TempBox, shared '
          'nodes and containers, equal-but-distinct twins); EVERY Config node '
          'of the DAG is made the failing node in turn (exhaustive over crash '
          'points of that DAG) with the exception shape / format-fault of the '
          'run (25 shapes incl. the classes plumbing likes to catch; the very '
          'exception object raised again by another node; a sanctioned '
          'auto_unconfig build before the failure; a callable whose own str() '
          'fails), each followed by a fault-free build; nested-build attempts '
          '(nine argument kinds, auto_unconfig preludes, later callables); '
          'residue of refused update_callable, or a successful one that leaves '
          'a tag behind; callees that modify their arguments; edits between '
          'builds; TaggedValue placeholders inside containers; configurations '
          'without any history; a mutable default stored explicitly; '
          'non-trivial = DAG with >= 2 Buildables; distinct = distinct DAG hash'),
    real_vs_stub=_BUILD_RVS,
    assumptions=['the failing callable is identified by its unique uid '
                 'argument (twins share a uid; any twin is accepted as path '
                 'target)',
                 'exception shapes are the 26 listed in fsim/stubmod.py'],
    required_probes=['path_checked', 'fault_free_builds'],
    level_text=('fault enumeration: for every generated DAG every Config node '
                'fails once (crash point enumeration is exhaustive per DAG; '
                'DAGs, exception shapes and format faults are sampled by seed), '
                'seven oracle clauses fingerprinted separately'),
    design_ref='DESIGN.md 3 (C05)',
    level_note=('trusted: eval("root"+path) with plain Python as the path '
                'resolver, canon, the stub recorder; three degraded exception '
                'shape classes are listed as known findings'),
    technique=('deterministic simulation with fault injection: exhaustive '
               'failing-node enumeration per seeded DAG, hostile __repr__ and '
               'nested-build faults, invocation-history oracle, replay'),
)
_add(
    'C02', machine='build', level='exploration',
    tiers={'quick': {'count': 12000, 'budget_s': 45},
           'thorough': {'count': 600000, 'budget_s': 800}},
    rule=('same DAGs as C05; two fault-free builds each: recorded invocation '
          'history checked for exactly-once and dependencies-first, built graph '
          'mirrored against the config graph by identity, the two builds '
          'share no built object; the same again after edits made between '
          'builds (half of them under suspend_tracking); the trace rules are '
          're-checked on the prefix before every injected failure, and a build '
          'that returns after a failure must not have invoked anything twice; '
          'non-trivial / distinct as C05'),
    real_vs_stub=_BUILD_RVS,
    assumptions=['direct bottom-up evaluation with one call per node instance '
                 'is the reference for the built graph'],
    required_probes=['fault_free_builds', 'tempbox_in_dag', 'deep_chain',
                     'equal_but_distinct_nodes', 'edit_between_builds',
                     'edit_while_tracking_suspended'],
    level_text=('history check over the recorded invocation log of the C05 '
                'engine (fault-free arm and failure prefixes); the identity '
                'clauses are a graph comparison that comes for free from the '
                'same runs'),
    design_ref='DESIGN.md 4 (C02)',
    level_note=('trusted: canon, mirror walk, stub recorder; exactly-once and '
                'ordering are trace properties, the identity clauses alone '
                'would be N/A for this technique'),
    technique=('deterministic simulation: seeded DAGs, recorded invocation '
               'history checked against a direct-evaluation reference, replay'),
)

_add(
    'C19', machine='threads', level='exploration',
    tiers={'quick': {'count': 9000, 'budget_s': 60},
           'thorough': {'count': 500000, 'budget_s': 840}},
    rule=('2-3 real threads released one at a time by a baton scheduler; '
          'pre-emption at every source line of fiddle/_src function frames and '
          'at explicit pause points inside slow stub callables; policies: '
          'random walk (p in .02/.1/.3), PCT (d<=3), run-to-pause, hot walk '
          '(pre-empts preferably inside functions that a static scan finds '
          'touching module-level mutable state or filling a private attribute, '
          'optionally only the first times a thread executes the line, then '
          'lets the other thread run a long stretch); each thread '
          'runs <= 12 ops (construct = first signature lookup of a shared '
          'callable, edits in/outside suspend_tracking, build with slow / '
          'failing / nested-building callable, deepcopy, ==, JSON round trip, '
          'history read, short-lived configs of a callable nothing else '
          'configures, sequences of growing length, late registration of a '
          'node traverser, stand-alone TaggedValues, set_tagged, a thread that '
          'ends with tracking switched off followed by a second generation of '
          'threads) on its own configs, some of which are per-thread deep '
          'copies of templates made before the threads start; '
          'non-trivial = >= 1 context switch; '
          'distinct = distinct (programs, interleaving digest)'),
    real_vs_stub=REAL + ('real threads, real threading.local; stub: configured '
                         'callables, the scheduler (sys.settrace baton), '
                         'per-thread exception classes sharing one __name__'),
    assumptions=['races live at line boundaries of fiddle frames (C-level '
                 'calls such as next(itertools.count()) are atomic under the '
                 'GIL); opcode-level pre-emption is unavailable: CPython '
                 '3.12.1 segfaults with f_trace_opcodes while threads are '
                 'parked in trace callbacks',
                 'history.custom_location is documented as temporary global '
                 'state and is not driven',
                 'whether a value of a late-registered type is traversed '
                 'before the registration is a matter of order; only what is '
                 'observed after registering is compared'],
    required_probes=['explicit_pause_points'],
    level_text=('seeded search over line-level interleavings of real threads; '
                'each thread\'s canonical observation log must equal the log '
                'of the same program run alone (computed first, in a forked '
                'child, so that neither side inherits the other\'s effects on '
                'process-wide state), an operation performed after all threads '
                'finished must equal the same operation after the alone runs, '
                'plus global invariants on '
                'sequence ids, the tracking flag and the exception-class '
                'cache; a failing interleaving is minimised to a scripted turn '
                'list that replays without any PRNG'),
    design_ref='DESIGN.md 3 (C19), 2.2',
    level_note=('trusted: CPython settrace semantics, canon; bounds: <= 3 '
                'threads, <= 12 ops each, 2M steps per run'),
    technique=('deterministic simulation: baton scheduler over real threads '
               'with sys.settrace line pre-emption, seeded schedule search, '
               'alone-run reference, scripted replay'),
)

_add(
    'C16', machine='history', level='exploration',
    tiers={'quick': {'count': 9000, 'budget_s': 45},
           'thorough': {'count': 500000, 'budget_s': 840}},
    rule=('1-3 real threads under the baton scheduler, each running <= 14 ops '
          '(all C03 edits incl. invalid ones, TaggedValue assignment, tag API, '
          'update_callable +- drop, materialize_defaults, assign, copy_with, '
          'copy / deepcopy / pickle, nested suspend_tracking) on its own '
          'configs; oracle from snapshots of the implementation\'s own '
          '__arguments__ / tag sets before and after every op; non-trivial = '
          '>= 3 ops; distinct = distinct (programs, interleaving digest)'),
    real_vs_stub=REAL + 'real threads; stub: configured callables, scheduler',
    assumptions=['tag-API calls (add_tag, set_tagged, ...) are attributed to '
                 'fiddle/_src/tagging.py today; the location clause is asserted '
                 'for attribute/index/slice edits, assign, copy_with, '
                 'update_callable, materialize_defaults and constructors only',
                 'an entry records the object stored at that time; later '
                 'in-place mutation of a nested value is not a change of the '
                 'parameter',
                 'line-level pre-emption only (see C19)'],
    required_probes=['value_entries', 'tag_entries', 'edit_under_suspension',
                     'varargs_shift_with_history', 'locations_checked',
                     'eq_pairs'],
    level_text=('seeded search over edit histories x line-level interleavings; '
                'after every operation the new history entries are checked '
                'against what was really stored (per-key change detection '
                'from snapshots), sequence ids over all threads, caller '
                'attribution, suspension, and history-independence of == and '
                'build by replaying each program under suspend_tracking'),
    design_ref='DESIGN.md 4 (C16), 2.5',
    level_note=('trusted: snapshots of __arguments__/__argument_tags__ as the '
                'ground truth of what was stored; canon; scheduler; a refused '
                'single-key operation must log nothing; the deletion marker is '
                'checked by identity, also on copies'),
    technique=('deterministic simulation: seeded edit histories on 1-3 '
               'scheduled threads, snapshot-derived history oracle, replay'),
)

_add(
    'C04', machine='partial', level='exploration',
    tiers={'quick': {'count': 20000, 'budget_s': 40},
           'thorough': {'count': 1000000, 'budget_s': 780}},
    rule=('seeded Partial/ArgFactory/Config nestings (factory in list / tuple '
          '/ dict, factory of factory, Config inside factory, Partial inside '
          'Partial, positional factories on *args signatures, shared constant '
          'nodes and containers) and a history of builds and 2-6 calls with '
          'keyword overrides and extra positionals; faults: a factory fails on '
          'its n-th call with one of nine exception classes (the call must '
          'fail with it in its cause chain, later calls unaffected), bounded '
          're-entrant calls from a factory, callables that attempt and swallow '
          'a nested build while the Partial is built, a history of dead decoy '
          'builds; in 30 % of the cases the root Partial configures a callable '
          'with a GENERATED signature (all parameter and callable kinds of C01); '
          'the configuration may be a copy / deepcopy / pickle of itself before '
          'it is built; one canon over all results '
          'of the history vs the reference; non-trivial = >= 2 successful '
          'calls; distinct = distinct case hash'),
    real_vs_stub=REAL + 'stub: configured callables; the PartialModel reference',
    assumptions=['one ArgFactory instance is never referenced twice inside one '
                 'Partial (within-call sharing is unspecified)',
                 'ArgFactory appears only under Partial / ArgFactory'],
    required_probes=['calls_with_override', 'with_arg_factory',
                     'nested_partial_calls'],
    level_text=('seeded search over nestings x call histories; the built '
                'callable is an object that lives across calls, so freshness '
                'vs reuse is a relation over the whole history and is decided '
                'by one canon over all results'),
    design_ref='DESIGN.md 4 (C04)',
    level_note=('trusted: the PartialModel (machines/partial.py PM/RefPartial), '
                'canon with callables opaque'),
    technique=('deterministic simulation with fault injection: seeded '
               'nestings and call histories, failing / re-entrant factories, '
               'executable functools.partial reference, replay'),
)

_HEAP_RVS = REAL + ('stub: configured callables; model heap (MNode graph + '
                    'TagModel)')
_add(
    'C07', machine='heap', level='exploration',
    tiers={'quick': {'count': 16000, 'budget_s': 40},
           'thorough': {'count': 800000, 'budget_s': 780}},
    rule=('a heap of live configurations; ops: new, copy.copy, deepcopy, '
          'pickle round trip, cast, copy_with, deepcopy_with of any live '
          'config, then attribute/index/slice edits and tag edits on ANY node '
          'of ANY live config (values may reference nodes of other live '
          'configs), tag collections passed as list / tuple / frozenset / one '
          're-used caller-owned set, leaves that cannot be deep-copied (a '
          'refusal is loud and accepted, a copy that is returned is checked), '
          'fdl.assign with a refused last keyword, values explicitly equal to '
          'the default, a mutable default stored explicitly (cfg.x = cfg.x), a '
          'failing deep copy followed by repair and retry, the NO_VALUE sentinel '
          '(by identity), TaggedValues made '
          'by TaggedValue(...) / Tag.new / with_tags, suspend blocks, build; after every op the joint canon of all live roots is '
          'compared with the model heap and each (original, copy) pair is '
          'checked for shared argument dicts / tag sets / history lists; '
          'non-trivial = >= 3 state-changing ops; distinct = distinct case hash'),
    real_vs_stub=_HEAP_RVS,
    assumptions=['a mismatch confined to the edited node itself is C03 '
                 'territory and discards the run (counted)',
                 'values that would create a reference cycle are skipped'],
    required_probes=['copies', 'edit_after_copy', 'tag_edits',
                     'uncopyable_refused'],
    level_text=('seeded search over copy/edit histories on a heap; the joint '
                'canonical form of all live configurations after every '
                'operation decides faithfulness, preserved sharing, and that '
                'no later edit of any copy leaks into another configuration'),
    design_ref='DESIGN.md 4 (C07)',
    level_note='trusted: HeapModel (machines/heap.py), ArgModel, canon',
    technique=('deterministic simulation: seeded copy/edit histories on a heap '
               'of configurations, lock-step model heap, replay'),
)
_add(
    'C14', machine='heap', level='exploration',
    tiers={'quick': {'count': 16000, 'budget_s': 40},
           'thorough': {'count': 800000, 'budget_s': 780}},
    rule=('heap of live configurations with a tag hierarchy (T0 > T1 > T2, U0); '
          'ops: add/remove/set/clear tag by name and index (valid and invalid), '
          'TaggedValue assignment with/without value to keyword / positional / '
          '**kwargs arguments and inside containers, set_tagged, '
          'select(tag).replace (also with mutable values and TaggedValues as '
          'the replacement: per-site copies), kept selection objects, '
          'update_callable (incl. a **kwargs target) as a step and inside diffs, '
          'a string tag annotation whose global appears later, tag annotations '
          'on positional-only / *args / **kwargs parameters, '
          'list_tags +- superclasses, transports (copy, '
          'deepcopy, pickle, cast, JSON round trip, build_diff+apply_diff of '
          'tag edits), build; joint canon incl. every tag set after every op; '
          'non-trivial / distinct as C07'),
    real_vs_stub=_HEAP_RVS,
    assumptions=['set_tagged on a tag that sits on an unset *args position is '
                 'unspecified (run discarded)',
                 'select(tag).replace deep-copies the value per site (modelled); '
                 'the ORDER in which one broadcast creates several **kwargs '
                 'entries is unspecified (the model adopts fiddle\'s)',
                 'tags left behind or addressed by position across an '
                 'update_callable are unspecified (skipped)',
                 'iteration of a tag selection belongs to C15 (N/A) and is '
                 'not asserted'],
    required_probes=['tag_edits', 'tag_broadcasts',
                     'tag_broadcast_changed_something', 'transport_json',
                     'transport_diff_tags', 'list_tags', 'build'],
    level_text=('seeded search over tag-operation histories; the canon of '
                'arguments AND tag sets of every reachable node equals the '
                'model\'s after every operation, which is the frame condition '
                '"and nothing else changed"; every transport is followed by '
                'further operations on the transported object'),
    design_ref='DESIGN.md 4 (C14)',
    level_note=('trusted: TagModel/ArgModel, canon; one known finding (diffing '
                'does not support positional arguments)'),
    technique=('deterministic simulation: seeded tag-operation histories with '
               'rejected operations, lock-step model, replay'),
)

_add(
    'C09', machine='serial', level='exploration',
    tiers={'quick': {'count': 6000, 'budget_s': 50},
           'thorough': {'count': 300000, 'budget_s': 840}},
    rule=('each run: 2-6 generated values (depth <= 5, <= 40 nodes; big ints, '
          'special floats, arbitrary str incl. lone surrogates, arbitrary bytes '
          'incl. escape-like sequences, enums, sets, slices, named tuples, '
          'defaultdicts, NO_VALUE, registered constant / dict-based object, dict '
          'keys of any serializable type, shared containers, Config / Partial / '
          'ArgFactory with positional args and tags, TaggedValues); fault-free '
          'arm: dump, load in process and (sampled) in a second interpreter with '
          'another PYTHONHASHSEED, canon + second document compared; policy-no '
          'arm: a policy refusing one used symbol; damaged arm: 0-3 damages per '
          'document (truncate, bit flips, JSON subtree dup/swap, pyref '
          'retargeted to eval / os.system / subprocess.call / a refused stub / a '
          'missing module, import seam failing) loaded under a restrictive '
          'recording policy with the two policy monitors; concurrent arm: two '
          'simulated threads (baton scheduler, policy callbacks as pause '
          'points) load under DIFFERENT policies, each judged against its own; '
          'import-race arm: two loads name a module whose first import is slow '
          'and rebinds the name at its end (the import lock is modelled by a '
          'schedulable lock); migration arm: a symbol migration is registered '
          'between two dumps of one value; refused register_constant calls as '
          'process history; configurations whose callable was swapped before '
          'the dump (stale tags); one zlib serializer object per run, used again '
          'after an edit that == cannot see; shared objects whose comparison '
          'operators raise; non-trivial = >= 1 '
          'document produced; distinct = distinct case hash'),
    real_vs_stub=REAL + ('stub: configured callables, the recording '
                         'PyrefPolicy, the import seam (serialization.importlib '
                         'replaced by a recording shim), the document medium, '
                         'the reader interpreter'),
    assumptions=['"valid JSON" = accepted by json.loads (Python emits Infinity '
                 '/ NaN tokens for special floats)',
                 'in the damaged arm the no-callable-invoked monitor is not '
                 'applied: the property quantifies it over documents produced '
                 'by dump_json',
                 'set members are hashable leaves; object names and set order '
                 'in the document are canonicalised before comparing'],
    required_probes=['round_trips', 'cross_process_reads', 'damaged_loads',
                     'damaged_loads_returned', 'policy_refusals_under_damage',
                     'concurrent_load_pairs', 'symbol_migrated_between_dumps'],
    level_text=('seeded search over values x damages x import failures x '
                'policies; lossless-or-loud decided by canon equality and a '
                'canonicalised second document, on the reader side of a '
                'two-interpreter exchange; the policy clause decided by two '
                'monitors that stay on for arbitrary (damaged) documents'),
    design_ref='DESIGN.md 3 (C09)',
    level_note=('trusted: canon; normalise_doc; the monitors observe '
                'importlib.import_module through the module attribute '
                'serialization.importlib and allows_import / allows_value '
                'through the policy object'),
    technique=('deterministic simulation with fault injection: seeded values, '
               'document-damaging medium, failing import seam, recording '
               'policy monitors, second-interpreter reader, two-thread arms '
               'under the baton scheduler, replay'),
)

_add(
    'C18', machine='flags', level='exploration',
    tiers={'quick': {'count': 16000, 'budget_s': 40},
           'thorough': {'count': 800000, 'budget_s': 780}},
    rule=('one or two FiddleFlag objects per run; a history of parse([1-3 '
          'directives]) / read .value / "serialize and feed to a fresh flag as '
          'config_str:" steps; directives: config:base_gen(<literal spec>), '
          'set:PATH=repr(v) with PATH drawn from as_dict_flattened / '
          'as_str_flattened of the model\'s current config (nested Buildables, '
          'list indices, str and int dict keys, positional arguments; tuples '
          'excluded), fiddler:name(lits) with fiddlers that do not commute '
          'with set: (mutating and replacing); malformed / misplaced '
          'directives injected, after which the run CONTINUES (a later read may '
          'fail again; a value that is returned reflects every other directive '
          'in order); a second, interleaved flag object; the module attribute a '
          'fiddler directive names is rebound between directives; a leaf whose '
          '__repr__ raises while the config is printed; parse() batches refused '
          'as a whole (non-string entry) and handed over again; call '
          'expressions with several positional / keyword literals; read-only '
          'tag queries before printing; whole-container overrides between entry '
          'overrides; refused overrides across a missing dict key; non-trivial = >= 2 directives applied; '
          'distinct = distinct case hash'),
    real_vs_stub=REAL + ('real absl MultiFlag machinery; stub: configured '
                         'callables, base-config function and fiddlers in '
                         'fsim/stubmod.py'),
    assumptions=['the model applies set: with exec("cfg" + accessor + " = " + '
                 'literal): Python is the independent path grammar',
                 'after a reported directive failure a later read may fail '
                 'again (then the run ends)',
                 'legacy flag API is documented as not order-preserving and '
                 'is not driven'],
    required_probes=['set_directives', 'set_on_nested_path',
                     'fiddler_directives', 'config_str_roundtrips',
                     'dict_paths_checked', 'str_paths_checked',
                     'reads_after_reported_failure_pending', 'fiddler_rebound'],
    level_text=('seeded search over directive histories on a lazily evaluated '
                'flag object; at every read the flag value equals the '
                'directives applied in command-line order by plain Python, '
                'every printed path resolves to its leaf and is writable '
                'through the override parser'),
    design_ref='DESIGN.md 3 (C18)',
    level_note='trusted: Python eval/exec as path resolver, canon',
    technique=('deterministic simulation: seeded directive histories with '
               'rejected directives, lock-step plain-Python model, replay'),
)
