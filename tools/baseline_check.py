#!/venv/bin/python
"""Runs the pinned pytest baseline on /repo and compares with BASELINE.json."""
import json, subprocess, sys, tempfile, os
import xml.etree.ElementTree as ET
ROOT = sys.argv[1] if len(sys.argv) > 1 else '/repo'
b = json.load(open('/root/.vp/BASELINE.json'))
stable = set(b['stable_pass'])
with tempfile.TemporaryDirectory(dir='/var/tmp') as d:
  x = os.path.join(d, 'j.xml')
  env = dict(os.environ)
  env.pop('FIDDLE_VERIF', None)
  subprocess.run(['/venv/bin/python', '-m', 'pytest', '-ra', '-q', '-p', 'no:cacheprovider',
                  '--timeout=900', '--continue-on-collection-errors', f'--junitxml={x}'],
                 cwd=ROOT, stdout=subprocess.DEVNULL, stderr=subprocess.DEVNULL, env=env)
  passed = set()
  for tc in ET.parse(x).getroot().iter('testcase'):
    if not any(c.tag in ('failure', 'error', 'skipped') for c in tc):
      passed.add(f"{tc.get('classname')}::{tc.get('name')}")
missing = sorted(stable - passed)
print(f'stable_pass={len(stable)} passed_now={len(passed)} missing={len(missing)}')
for m in missing[:20]:
  print('  MISSING', m)
sys.exit(1 if missing else 0)
