#!/venv/bin/python
"""Writes /verif/MANIFEST.json from fsim.registry (single source of truth)."""
import json, os, sys
sys.path.insert(0, '/verif')
from fsim import registry

NA = {
 'C06': '== is a pure relation on two frozen inputs: no schedule, fault, clock or operation history decides it; deterministic simulation has nothing to own (DESIGN 5).',
 'C08': 'traversal paths / identity rebuild are pure functions of one structure; the only environment-dependent aspect (recycled ids of temporaries) cannot be put behind a sound seam in CPython (DESIGN 2.4, 5).',
 'C10': 'apply_diff(build_diff(old,new),old)==new is a pure round trip on a pair of inputs; no interleaving, fault or evolving state (DESIGN 5).',
 'C11': 'auto_config is a source-to-source translation checked per program: translation validation, not simulation (DESIGN 5).',
 'C12': 'generated Python code vs. input configuration is per-output translation validation; emits text, touches no file, clock or shared state (DESIGN 5).',
 'C13': 'generated fiddler vs. apply_diff is per-output translation validation (DESIGN 5).',
 'C15': 'select() is a pure function of a DAG and a predicate; the history-flavoured tag-selection half is exercised inside C14 (DESIGN 5).',
 'C17': 'a before/after comparison around one call of a pure API; observing transient states from a second thread would demand more than the property states (DESIGN 5).',
 'C20': 'metamorphic relation on one input per helper; no schedule, fault or history dimension (DESIGN 5).',
}
checks = []
for pid in sorted(registry.CHECKS):
  s = registry.CHECKS[pid]
  checks.append({
    'property_id': pid,
    'quick_cmd': f'./check {pid} --tier quick',
    'thorough_cmd': f'./check {pid} --tier thorough',
    'evidence_file': f'/verif/evidence/{pid}.json',
    'replay_cmd_template': f'./check {pid} --replay {{path}}',
    'engine': 'fsim',
    'level_claimed': {'category': s['level'], 'text': s['level_text'], 'design_ref': s['design_ref']},
    'level_note': s['level_note'],
    'technique': s['technique'],
  })
m = {
 'version': 1,
 'setup_cmd': './setup.sh',
 'hooks': {'guard': 'FIDDLE_VERIF', 'enable': 'no hook exists in /repo: every seam is taken from outside (sys.settrace, stub callables, monkey-patched module attributes); the variable is reserved and unused',
           'baseline_off_cmd': 'cd /repo && /venv/bin/python -m pytest -ra -q -p no:cacheprovider --timeout=900 --continue-on-collection-errors',
           'source_commits': [], 'add_only': True},
 'engines': [{'name': 'fsim', 'path': '/verif/fsim', 'serves_properties': sorted(registry.CHECKS),
              'kind_free_text': 'deterministic simulation: seeded operation/fault/schedule search over in-process machines (baton scheduler over real threads with sys.settrace pre-emption, stub callables with fault plans, damaged-document medium), lock-step reference models, shrinking, replay files'}],
 'checks': checks,
 'not_applicable': [{'property_id': k, 'reason': v} for k, v in sorted(NA.items()) if k not in registry.CHECKS],
 'notes': 'Known findings and fixed defects: /verif/known_findings.jsonl. Exit codes of ./check: 0 held, 1 VIOLATION, 2 HARNESS-ERROR (never reported as a pass).',
}
json.dump(m, open('/verif/MANIFEST.json', 'w'), indent=1)
print('wrote MANIFEST.json with', len(checks), 'checks,', len(m['not_applicable']), 'n/a')
