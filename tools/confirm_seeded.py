#!/venv/bin/python
"""Confirms a sub-agent's seeded change in a scratch worktree and files it under
/verif/seeded/<id>/.

usage: tools/confirm_seeded.py <src_dir> <id> <property> [--no-suite]
  src_dir holds patch.diff, demo.py, notes.md
Checks: demo passes without the patch, fails with it; the pinned pytest suite
still matches BASELINE.json with the patch (unless --no-suite).
"""
import json, os, shutil, subprocess, sys
VERIF = os.path.dirname(os.path.dirname(os.path.abspath(__file__)))
WT = '/tmp/wt/confirm'


def sh(cmd, **kw):
  return subprocess.run(cmd, shell=True, capture_output=True, text=True, **kw)


def main():
  src, sid, prop = sys.argv[1:4]
  suite = '--no-suite' not in sys.argv
  if not os.path.isdir(WT):
    r = sh(f'git -C /repo worktree add -q --detach {WT} HEAD')
    assert r.returncode == 0, r.stderr
  sh(f'git -C {WT} checkout -q --detach $(git -C /repo rev-parse HEAD)')
  sh(f'git -C {WT} checkout -- .')
  patch, demo = os.path.join(src, 'patch.diff'), os.path.join(src, 'demo.py')
  ran = []
  r0 = sh(f'/venv/bin/python {demo}', cwd=WT)
  ran.append(f'demo without patch: exit {r0.returncode}')
  r = sh(f'git -C {WT} apply {patch}')
  if r.returncode:
    print('PATCH DOES NOT APPLY', r.stderr); return 1
  try:
    r1 = sh(f'/venv/bin/python {demo}', cwd=WT)
    ran.append(f'demo with patch: exit {r1.returncode}')
    ok_suite = None
    if suite:
      rs = sh(f'{VERIF}/tools/baseline_check.py {WT}')
      ok_suite = rs.returncode == 0
      ran.append('pinned pytest baseline with patch: ' + rs.stdout.strip().splitlines()[0])
  finally:
    sh(f'git -C {WT} checkout -- .')
  ok = r0.returncode == 0 and r1.returncode != 0 and ok_suite is not False
  print('\n'.join(ran)); print('CONFIRMED' if ok else 'NOT CONFIRMED')
  if not ok:
    print(r0.stdout[-500:], r0.stderr[-500:], r1.stdout[-500:], r1.stderr[-500:])
    return 1
  dst = os.path.join(VERIF, 'seeded', sid)
  os.makedirs(dst, exist_ok=True)
  shutil.copy(patch, os.path.join(dst, 'patch.diff'))
  shutil.copy(demo, os.path.join(dst, 'demo.py'))
  notes = open(os.path.join(src, 'notes.md')).read() if os.path.exists(os.path.join(src, 'notes.md')) else ''
  meta = {'property': prop, 'source': 'independent sub-agent given only the property text',
          'needs_to_manifest': notes.strip(), 'confirmed': ran,
          'demo_cmd': f'cd <worktree of /repo with patch applied> && /venv/bin/python demo.py'}
  json.dump(meta, open(os.path.join(dst, 'meta.json'), 'w'), indent=1)
  print('filed', dst)
  return 0


if __name__ == '__main__':
  sys.exit(main())
