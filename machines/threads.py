"""Threads machine (C19): 2-3 simulated threads, each running a short program
on its OWN configurations but sharing stub callables, tag classes and every
fiddle module global, under the deterministic baton scheduler.

Oracle: each thread's observation log equals the log of the same program run
alone; sequence ids unique / increasing; tracking flag is per thread; the
exception-class cache never hands out another thread's class.

Fault kinds: preempt (context switch at a line / opcode / pause point),
callable_raises, nested_build.
"""
from __future__ import annotations

import copy
import json
import os

import fiddle as fdl
from fiddle import history as fdl_history

from fsim import canon as C
from fsim import prog
from fsim import sched as sched_lib
from fsim import shrink as S
from fsim import stubs
from fsim.world import World, stable_hash
from machines.build import BUILD_STUBS

FIDDLE_SRC = os.path.join(os.path.dirname(os.path.abspath(fdl.__file__)), '_src') + os.sep
OPCODE_FILES = ('history.py', 'building.py', 'signatures.py',
                'reraised_exception.py')
sched_lib.hot_lines(FIDDLE_SRC)   # (scanned once, in the lane process)
NAMES = {'n0': ['x', 'y', 'z'], 'n1': ['y'], 'N2': ['x', 'k'],
         'N3': ['x', 'y'], 'n4': [], 'n5': ['x'], 'n6': ['x', 'y', 'k']}
POSITIONAL_FNS = ('n1', 'n4')
# CPython 3.12.1 segfaults when f_trace_opcodes is set while other threads are
# parked inside trace callbacks (reproduced here); opcode granularity is off.
OPCODE_OK = False


# --------------------------------------------------------------------------
# generation
# --------------------------------------------------------------------------
def gen_thread(rng, t, behav, max_ops, force_raise=False, pre_fns=()):
  base = (t + 1) * 1000
  counter = [0]
  tok = [base * 10]
  fn_of = list(pre_fns)   # fn name per live config index (approximate, for op choice)

  def token():
    tok[0] += 1
    return tok[0]

  def uid():
    counter[0] += 1
    u = base + counter[0]
    r = rng.random()
    if r < 0.40:
      behav[str(u)] = {'pause': rng.randint(1, 3)}
    elif r < 0.52:
      behav[str(u)] = {'raise': 1}
    elif r < 0.60:
      behav[str(u)] = {'nested': 1}
    return u

  def child(depth=0):
    r = rng.random()
    if r < 0.10:
      # a function / class / enum member as a plain value, shared by all threads
      return {'sym': rng.choice(['n0', 'N2', 'Color.RED', 'Color.BLUE', 'NT'])}
    if r < 0.50 or depth >= 1:
      return token()
    if r < 0.55:
      # a TaggedValue (a small configuration of its own) as the value
      return {'tv': {'tags': [rng.choice(['T0', 'T1', 'U0'])], 'value': token()}}
    if r < 0.70:
      return {'list': [child(depth + 1) for _ in range(rng.randint(0, 2))]}
    if r < 0.78:
      return {'dict': [['k', child(depth + 1)]]}
    return {'node': {'btype': 'Config', 'fn': 'n0', 'args': [],
                     'kwargs': {'uid': uid(), 'x': child(depth + 1)}}}

  def new_op():
    fn = rng.choice(list(NAMES))
    u = uid()
    if fn == 'n1':
      args = [u] + ([child()] if rng.random() < 0.7 else [])
      kwargs = {}
      if len(args) == 2 and rng.random() < 0.5:
        args += [child(), child()]
      elif rng.random() < 0.5:
        kwargs['y'] = child()
      if rng.random() < 0.3:
        kwargs['extra'] = child()
    elif fn == 'n4':
      args = [u] + [child() for _ in range(rng.randint(0, 2))]
      kwargs = {}
    else:
      args = []
      kwargs = {'uid': u}
      for nm in NAMES[fn]:
        if rng.random() < 0.5:
          kwargs[nm] = child()
    fn_of.append(fn)
    return {'op': 'new', 'fn': fn, 'btype': 'Config', 'args': args,
            'kwargs': kwargs}

  ops = [new_op()]
  n = rng.randint(2, max_ops)
  depth = 0
  if force_raise:
    # every thread fails a build with its own class of the shared name
    behav[str(base + 1)] = {'raise': 1}
    ops.insert(rng.randint(1, len(ops)), {'op': 'build', 'c': 0})
  while len(ops) < n:
    r = rng.random()
    c = rng.randrange(len(fn_of))
    fn = fn_of[c]
    if r < 0.12:
      ops.append(new_op())
    elif r < 0.32:
      if NAMES[fn] and rng.random() < 0.8:
        ops.append({'op': 'setattr', 'c': c, 'name': rng.choice(NAMES[fn]),
                    'v': child()})
      elif fn in POSITIONAL_FNS:
        if rng.random() < 0.5:
          ops.append({'op': 'setitem', 'c': c, 'key': {'slice': ['VA', None, None]},
                      'vs': [child() for _ in range(rng.randint(0, 2))]})
        else:
          ops.append({'op': 'setitem', 'c': c, 'key': 1, 'v': child()})
      else:
        ops.append({'op': 'setattr', 'c': c, 'name': 'x', 'v': child()})
    elif r < 0.38:
      ops.append({'op': 'delattr', 'c': c,
                  'name': rng.choice(NAMES[fn] or ['x'])})
    elif r < 0.46:
      if depth < 2 and rng.random() < 0.6:
        ops.append({'op': 'suspend_enter'})
        depth += 1
      else:
        ops.append({'op': 'suspend_exit'})
        depth = max(0, depth - 1)
    elif r < 0.62:
      ops.append({'op': 'build', 'c': c})
    elif r < 0.68:
      ops.append({'op': 'tvalue', 'tag': rng.choice(['T0', 'T1', 'U0']), 'v': token()})
    elif r < 0.73:
      ops.append({'op': rng.choice(['deepcopy', 'copy', 'pickle', 'pickle']), 'c': c})
      fn_of.append(fn)
    elif r < 0.76:
      arg = rng.choice(NAMES[fn]) if NAMES[fn] else 0
      ops.append({'op': rng.choice(['add_tag', 'add_tag', 'clear_tags']),
                  'c': c, 'arg': arg, 'tag': rng.choice(['T0', 'T1', 'U0'])})
    elif r < 0.775:
      ops.append({'op': 'tvalue', 'tag': rng.choice(['T0', 'T1', 'U0']), 'v': token()})
    elif r < 0.79:
      ops.append({'op': 'set_tagged', 'c': c, 'tag': rng.choice(['T0', 'T1', 'U0']),
                  'v': token()})
    elif r < 0.82:
      ops.append({'op': 'eq', 'c': c, 'd': rng.randrange(len(fn_of))})
    elif r < 0.90:
      ops.append({'op': 'json', 'c': c})
    else:
      ops.append({'op': 'history', 'c': c})
  ops.append({'op': 'history', 'c': rng.randrange(len(fn_of))})
  return ops


def gen_case(world, tier, prop):
  rng = world.stream('gen')
  sw = world.stream('swarm')
  nthreads = sw.choice([2, 2, 3])
  max_ops = 12 if tier == 'thorough' else 9
  behav = {}
  force = sw.random() < 0.3
  trng = world.stream('templates')
  templates = []
  if trng.random() < 0.35:
    # configurations made once, up front; every thread gets its OWN deep copy
    # before the threads start (distinct configurations that still share
    # whatever a copy does not duplicate)
    for k in range(trng.randint(1, 2)):
      d = gen_thread(trng, 7 + k, behav, 2)[0]
      if trng.random() < 0.3:
        d['btype'] = 'Partial'
      if trng.random() < 0.5 and d['fn'] in ('n0', 'N2', 'n5', 'n6'):
        d['kwargs']['x'] = {'list': [90000 + 100 * k + j for j in range(trng.randint(3, 7))]}
      elif d['fn'] in ('n0', 'N2', 'n5', 'n6'):
        # a tuple of immutables: deepcopy hands the SAME tuple object to every copy
        d['kwargs']['x'] = {'tuple': [91000 + 100 * k + j for j in range(trng.randint(2, 5))]}
      templates.append(d)
  pre = [d['fn'] for d in templates]
  threads = [gen_thread(rng, t, behav, max_ops, force, pre_fns=pre) for t in range(nthreads)]
  r = sw.random()
  if r < 0.3:
    policy = {'kind': 'random', 'p': sw.choice([0.02, 0.1, 0.3])}
  elif r < 0.55:
    policy = {'kind': 'hot', 'p': sw.choice([0.003, 0.01, 0.03]),
              'p_hot': sw.choice([0.05, 0.15, 0.4]),
              'hold': sw.choice([0, 300, 3000]),
              'novel': sw.choice([0, 1, 3])}
  elif r < 0.8:
    policy = {'kind': 'pct', 'd': sw.randint(1, 3), 'horizon': sw.choice([300, 1500, 5000])}
  else:
    policy = {'kind': 'pause', 'q': 0.6}
  case = {'threads': threads, 'behav': behav, 'policy': policy,
          'opcode': OPCODE_OK and sw.random() < 0.33, 'sched_seed': world.seed}
  if templates:
    case['templates'] = templates
    # every thread also works on ITS copy of the first template: an edit, a dump
    names0 = NAMES.get(templates[0]['fn']) or []
    for t, ops in enumerate(threads):
      if names0 and trng.random() < 0.8:
        ops.insert(trng.randint(1, len(ops)),
                   {'op': 'setattr', 'c': 0, 'name': trng.choice(names0), 'v': 95000 + t})
      if trng.random() < 0.6:
        ops.insert(trng.randint(1, len(ops)), {'op': 'json', 'c': 0})
  if trng.random() < 0.15:
    # a thread ends with history tracking switched off; threads started AFTER all
    # of these have finished (which may get their idents) must start tracked
    threads[trng.randrange(nthreads)].append({'op': 'tracking_off'})
    case['second_generation'] = trng.randint(2, 4)
  if trng.random() < 0.2 and nthreads >= 2:
    # one thread registers a traverser for a container type while another is
    # already meeting values of that type (as opaque leaves)
    a, b = trng.sample(range(nthreads), 2)
    for j in range(trng.randint(1, 3)):
      threads[a].insert(trng.randint(1, len(threads[a])),
                        {'op': 'late_touch', 'uid': 700000 + 10 * j})
    threads[b].insert(trng.randint(1, len(threads[b])),
                      {'op': 'register_late', 'uid': 710000})
    threads[b].append({'op': 'register_late', 'uid': 710010})
  if trng.random() < 0.4:
    # sequences of growing length (of small containers, so that every position
    # has a path of its own): each thread meets longer lists than any before it
    # -- staggered, so that one thread is still at a short one while another is
    # past a long one -- and a still longer one at the very end
    for t, ops in enumerate(threads):
      u_ = 800000 + 1000 * t
      sizes = sorted(trng.sample(range(2, 11), trng.randint(2, 3)), reverse=(t % 2 == 1))
      for j, n_ in enumerate(sizes):
        at = trng.randint(1, len(ops))
        ops.insert(at, {'op': 'new', 'fn': 'n0', 'btype': 'Config', 'args': [],
                        'kwargs': {'uid': u_ + 100 * j,
                                   'x': {'list': [{'list': [u_ + 100 * j + i]} for i in range(n_)]},
                                   'y': {'tuple': [{'list': [u_ + 100 * j + 50 + i]} for i in range(n_ + 1)]}}})
        ops.insert(at + 1, {'op': trng.choice(['build', 'json', 'deepcopy']), 'c': -1})
      ops.append({'op': 'new', 'fn': 'n0', 'btype': 'Config', 'args': [],
                  'kwargs': {'uid': u_ + 900, 'x': {'list': [{'list': [u_ + 900 + i]} for i in range(14)]}}})
      ops.append({'op': 'json', 'c': -1})
      ops.append({'op': 'build', 'c': -1})
  return case


# --------------------------------------------------------------------------
# execution
# --------------------------------------------------------------------------
class Run:

  def __init__(self, case):
    self.case = case
    self.rec = stubs.reset()
    self.fns = stubs.install(BUILD_STUBS)
    n = len(case['threads'])
    # per-thread exception classes that share one __name__
    self.exc_classes = [type('SharedNameError', (Exception,), {'tid': t})
                        for t in range(n)]
    self.nested_outcomes = {t: [] for t in range(n)}
    self.sched = None
    self.alone_tid = None
    self.rec.on_invoke = self.on_invoke
    self.rec.thread_id = self.tid

  def tid(self):
    if self.alone_tid is not None:
      return self.alone_tid
    return self.sched.thread_id() if self.sched is not None else 0

  def on_invoke(self, rec):
    u = rec.args.get('uid')
    b = self.case['behav'].get(str(u))
    if not b:
      return
    t = self.tid()
    if 'pause' in b:
      if self.sched is not None and self.alone_tid is None:
        for _ in range(b['pause']):
          self.sched.pause(int(u) if isinstance(u, int) else 0)
    elif 'raise' in b:
      raise self.exc_classes[t](f'boom-{u}')
    elif 'nested' in b:
      for _ in range(2):
        try:
          fdl.build(fdl.Config(dict, a=1))
          self.nested_outcomes[t].append('accepted')
        except Exception as e:  # pylint: disable=broad-except
          self.nested_outcomes[t].append(type(e).__name__)

  def thread_fn(self, env, ops):
    def body():
      try:
        for op in ops:
          prog.step(env, op)
      finally:
        prog.finish(env)
    return body


def alone_reference(case):
  """{'obs': [per-thread observation lists], 'nested': {tid: outcomes}} of every
  thread's program run alone, one after the other, in a forked child."""
  import json as _json
  r, w = os.pipe()
  pid = os.fork()
  if pid == 0:
    code = 0
    try:
      os.close(r)
      R = Run(case)
      n = len(case['threads'])
      out = {'obs': [], 'nested': {}}
      for t in range(n):
        R.alone_tid = t
        R.nested_outcomes[t] = []
        env = prog.Env(t, R.fns, sched=None, exc_class=R.exc_classes[t])
        adopt_templates(case, [env], None)
        try:
          for op in case['threads'][t]:
            prog.step(env, op)
        finally:
          prog.finish(env)
          if env.tracking_off:
            # (the alone runs share one OS thread: undo what the real thread
            # would have taken to its grave)
            fdl_history.set_tracking(enabled=True)
        out['obs'].append(env.obs)
        out['nested'][str(t)] = R.nested_outcomes[t]
      out['post'] = post_observation(case, R)
      data = _json.dumps(out, default=repr).encode()
      with os.fdopen(w, 'wb') as f:
        f.write(data)
    except BaseException:  # pylint: disable=broad-except
      import traceback
      try:
        os.write(w, _json.dumps({'error': traceback.format_exc()}).encode())
      except OSError:
        pass
      code = 3
    finally:
      os._exit(code)
  os.close(w)
  chunks = []
  with os.fdopen(r, 'rb') as f:
    while True:
      b = f.read(1 << 16)
      if not b:
        break
      chunks.append(b)
  os.waitpid(pid, 0)
  out = _json.loads(b''.join(chunks) or b'{}')
  if 'obs' not in out:
    raise RuntimeError('alone reference failed: ' + str(out.get('error'))[-1500:])
  return out


def post_observation(case, R):
  """What a fresh operation observes once every program has finished (state
  that only a LATER operation trips over is caught here)."""
  if not any(op['op'] == 'register_late' for ops in case['threads'] for op in ops):
    return None
  env = prog.Env(0, R.fns, sched=None, exc_class=R.exc_classes[0])
  R.alone_tid = 0
  try:
    prog.step(env, {'op': 'late_touch_observed', 'uid': 720000})
  finally:
    R.alone_tid = None
  return env.obs[-1]['out']


def adopt_templates(case, envs, res):
  """Makes the case's template configurations afresh (nothing has looked at
  them) and gives each env its own deep copy, in the calling thread."""
  import copy as _copy
  if not case.get('templates'):
    return
  mk = prog.M.Maker('impl', envs[0].fns)
  for d in case['templates']:
    cls = {'Config': fdl.Config, 'Partial': fdl.Partial}[d.get('btype', 'Config')]
    tpl = cls(envs[0].fns[d['fn']], *[mk(a) for a in d.get('args', [])],
              **{n: mk(v) for n, v in d.get('kwargs', {}).items()})
    for j, env in enumerate(envs):
      # the first thread works on the template itself, the others on deep copies
      # of it (so that exactly two objects share what one deepcopy shares)
      env.cfgs.append(tpl if (j == 0 and len(envs) > 1) else _copy.deepcopy(tpl))
  for env in envs:
    env.new_entries()   # (entries inherited from the template are not this thread's;
    del env.keep_entries[:]   # the configs keep them alive, so ids stay unique)
  if res is not None:
    res['probes']['template_copies_per_thread'] = len(case['templates'])


def V(clause, msg, **extra):
  fp = {'property': 'C19', 'clause': clause}
  fp.update(extra)
  return {'fp': fp, 'msg': msg}


def run(case):
  res = {'violations': [], 'faults': {}, 'probes': {}, 'steps': 0,
         'state_hashes': [], 'nontrivial': False}
  n = len(case['threads'])
  # The reference (each program alone) runs first, in a forked child: whatever
  # it warms up or leaves behind in process-wide state dies with the child, so
  # the interleaved run below starts cold AND the reference cannot inherit
  # damage that the interleaved run did to process-wide state.
  ref = alone_reference(case)
  R = Run(case)
  rng = World(case['sched_seed']).stream('sched')
  policy = sched_lib.make_policy(case['policy'], rng, n)
  sc = sched_lib.Sched(policy, [FIDDLE_SRC],
                       opcode_files=OPCODE_FILES if case.get('opcode') else (),
                       step_cap=case.get('step_cap', 2_000_000))
  R.sched = sc
  envs = [prog.Env(t, R.fns, sched=sc, exc_class=R.exc_classes[t])
          for t in range(n)]
  adopt_templates(case, envs, res)
  try:
    sc.run([R.thread_fn(envs[t], case['threads'][t]) for t in range(n)])
  except sched_lib.SimDeadlock as e:
    res['steps'] = sc.steps
    res['turns'] = sc.turns
    res['sched_hash'] = sc.sched_hash()
    res['faults'] = {'preempt': sc.switches}
    res['violations'].append(V('deadlock', f'threads on disjoint configurations deadlocked: {e}'))
    return res
  res['steps'] = sc.steps
  res['sched_hash'] = sc.sched_hash()
  res['turns'] = sc.turns
  res['digest'] = sc.sched_hash()
  res['faults'] = {'preempt': sc.switches}
  n_raise = sum(1 for e in envs for o in e.obs
                if isinstance(o['out'], dict) and o['out'].get('exc') == 'SharedNameError')
  if n_raise:
    res['faults']['callable_raises'] = n_raise
  nested_con = {t: list(v) for t, v in R.nested_outcomes.items()}
  if any(nested_con.values()):
    res['faults']['nested_build'] = sum(len(v) // 2 for v in nested_con.values())
  if sc.pauses:
    res['probes']['explicit_pause_points'] = sc.pauses
  if sc.lock_waits:
    res['faults']['lock_wait'] = sc.lock_waits
  if case.get('opcode'):
    res['probes']['opcode_granularity_runs'] = 1
  # ---- reference: each program alone (computed BEFORE, see alone_reference) --
  alone_obs, alone_nested = ref['obs'], ref['nested']
  R.sched = None

  class _Alone:     # same shape the comparisons below expect
    def __init__(self, obs):
      self.obs = obs
  if case.get('second_generation'):
    import threading as _threading
    seen = []

    def fresh():
      ok = fdl_history.tracking_enabled()
      c = fdl.Config(R.fns['n0'], uid=730000)
      c.x = 1
      seen.append((ok, len(c.__argument_history__.get('x', []))))
    for _ in range(case['second_generation']):
      t_ = _threading.Thread(target=fresh)
      t_.start()
      t_.join()
    res['probes']['threads_started_after_the_first_finished'] = len(seen)
    if any(not ok or n_ != 1 for ok, n_ in seen):
      res['violations'].append(V(
          'tracking-not-per-thread',
          f'a thread started after all others had finished begins with tracking '
          f'off / logs nothing (tracking_enabled, entries for x): {seen}'))
  post = json.loads(json.dumps(post_observation(case, R), default=repr))
  if post != ref.get('post'):
    res['violations'].append(V(
        'later-operation-differs',
        'an operation performed after all threads had finished differs from the '
        'same operation after the programs ran one by one: '
        + '; '.join(C.diff(ref.get('post'), post))))
  alone = [_Alone(o) for o in alone_obs]
  for t in range(n):
    R.nested_outcomes[t] = alone_nested[str(t)]
  viols = res['violations']
  for t in range(n):
    a = alone[t].obs
    b = json.loads(json.dumps(envs[t].obs, default=repr))   # (as the reference travelled)
    for i, (x, y) in enumerate(zip(a, b)):
      if x != y:
        opk = x['op']
        viols.append(V('differs-from-alone',
                       f'thread {t} op #{i} {case["threads"][t][i]}: alone != '
                       'interleaved: ' + '; '.join(C.diff(x, y)), op=opk))
        break
    if nested_con[t] != R.nested_outcomes[t]:
      viols.append(V('nested-guard-differs',
                     f'thread {t}: nested build outcomes alone '
                     f'{R.nested_outcomes[t]} vs interleaved {nested_con[t]}'))
    if 'accepted' in nested_con[t]:
      viols.append(V('nested-build-accepted',
                     f'thread {t}: fdl.build inside a callable was accepted: '
                     f'{nested_con[t]}'))
    for i, o in enumerate(envs[t].obs):
      if o['tracking'] != o['expected_tracking']:
        viols.append(V('tracking-not-per-thread',
                       f'thread {t} after op #{i} {o["op"]}: tracking_enabled()='
                       f'{o["tracking"]} but this thread is '
                       f'{"not " if o["expected_tracking"] else ""}suspended'))
        break
      if isinstance(o['out'], dict) and o['out'].get('own_class') is False:
        viols.append(V('foreign-exception-class',
                       f'thread {t} op #{i}: escaped exception is not an '
                       'instance of this thread\'s own exception class'))
        break
    prev = -1
    for i, batch in enumerate(envs[t].seq_batches):
      if batch and batch[0] <= prev:
        viols.append(V('sequence-not-increasing',
                       f'thread {t} op #{i}: sequence id {batch[0]} after {prev}'))
        break
      if len(set(batch)) != len(batch):
        viols.append(V('sequence-duplicate', f'thread {t} op #{i}: {batch}'))
        break
      if batch:
        prev = batch[-1]
  allseq = [e.sequence_id for env in envs for e in env.keep_entries]
  if len(allseq) != len(set(allseq)):
    dup = sorted(s for s in set(allseq) if allseq.count(s) > 1)[:3]
    viols.append(V('sequence-duplicate',
                   f'sequence ids used twice across threads: {dup}'))
  res['nontrivial'] = sc.switches >= 1
  res['case_hash'] = stable_hash([case['threads'], res['sched_hash']])
  res['state_hashes'] = [stable_hash(e.obs[-1]) for e in envs if e.obs]
  return res


# --------------------------------------------------------------------------
# pin + shrink
# --------------------------------------------------------------------------
def merge_turns(turns):
  out = []
  for t in turns:
    if out and out[-1][0] == t[0] and not out[-1][2]:
      out[-1][1] += t[1]
      out[-1][2] = t[2]
    else:
      out.append(list(t))
  return out


def shrink_candidates(case):
  n = len(case['threads'])
  # drop a whole thread (renumbering turns)
  if n > 1:
    for t in range(n - 1, -1, -1):
      c = copy.deepcopy(case)
      del c['threads'][t]
      if c['policy']['kind'] == 'script':
        turns = [[x[0] - (1 if x[0] > t else 0), x[1], x[2]]
                 for x in c['policy']['turns'] if x[0] != t]
        c['policy']['turns'] = merge_turns(turns)
      yield c
  for t in range(n):
    for shorter in S.ddmin_candidates(case['threads'][t]):
      if not shorter:
        continue
      c = copy.deepcopy(case)
      c['threads'][t] = copy.deepcopy(shorter)
      yield c
  if case['policy']['kind'] == 'script':
    turns = case['policy']['turns']
    # fewer context switches: drop one turn boundary at a time
    for i in range(len(turns) - 1, 0, -1):
      c = copy.deepcopy(case)
      tt = c['policy']['turns']
      moved = tt.pop(i)
      # give its steps to the previous turn of the same thread if any
      for j in range(i - 1, -1, -1):
        if tt[j][0] == moved[0]:
          tt[j][1] += moved[1]
          tt[j][2] = tt[j][2] or moved[2]
          break
      c['policy']['turns'] = merge_turns(tt)
      yield c
  if case.get('opcode'):
    c = copy.deepcopy(case)
    c['opcode'] = False
    yield c
  for u in list(case['behav']):
    c = copy.deepcopy(case)
    del c['behav'][u]
    yield c


class Machine:
  name = 'threads'
  properties = ('C19',)

  def gen(self, world, tier, prop):
    return gen_case(world, tier, prop)

  def run(self, case):
    try:
      return run(case)
    finally:
      stubs.CURRENT.on_invoke = None
      fdl_history.set_tracking(True)

  def pin(self, case, res):
    c = copy.deepcopy(case)
    c['policy'] = {'kind': 'script', 'turns': res['turns']}
    return c

  def shrink_candidates(self, case):
    return shrink_candidates(case)

  def size(self, case):
    return sum(len(t) for t in case['threads'])

  def sample(self, case, res):
    return {'threads': [t[:5] for t in case['threads']],
            'n_ops': [len(t) for t in case['threads']],
            'policy': case['policy']['kind'], 'opcode': case.get('opcode'),
            'steps': res.get('steps'), 'switches': res['faults'].get('preempt')}


MACHINE = Machine()
