"""Partial machine (C04): the callable returned by fdl.build(fdl.Partial(...))
lives across calls; a history of calls (keyword overrides, extra positionals,
rebuilds) is checked against a hand-written functools.partial reference with
per-call factory evaluation.

The comparison is one canon over ALL results of the history: the numbering of
mutable objects exposes which objects are shared between calls (must be: what
involves no ArgFactory) and which are fresh (everything under an ArgFactory).

Fault kind: rejected_op (a call Python itself refuses must be refused).
"""
from __future__ import annotations

import copy
import functools

import fiddle as fdl

from fsim import canon as C
from fsim import model as M
from fsim import shrink as S
from fsim import stubmod
from fsim import stubs
from fsim.world import stable_hash
from machines.build import BUILD_STUBS, SLOTS


# --------------------------------------------------------------------------
# reference model
# --------------------------------------------------------------------------
class RefPartial:
  """Reference for one built Partial node."""
  _fsim_callable = True

  def __init__(self, pm, node):
    self.pm, self.node = pm, node
    args, kwargs, _, unformable = node.call_args()
    if unformable:
      raise M.Unformable()
    self.args_t = [pm.template(a) for a in args]
    self.kwargs_t = {n: pm.template(a) for n, a in kwargs.items()}

  def __call__(self, *extra, **over):
    pos = [ev(t) for t in self.args_t] + list(extra)
    kw = {n: ev(t) for n, t in self.kwargs_t.items() if n not in over}
    kw.update(over)
    return self.node.fn(*pos, **kw)


def ev(t):
  return t[1]() if t[0] == 'dyn' else t[1]


class PM:
  """One build of the reference: constants are made once, here."""

  def __init__(self):
    self.memo = {}

  def template(self, v):
    k = id(v)
    if k in self.memo:
      return self.memo[k][1]
    t = self._template(v)
    self.memo[k] = (v, t)
    return t

  def _template(self, v):
    if isinstance(v, M.MNode):
      if v.btype == 'Config':
        args, kwargs, _, unformable = v.call_args()
        if unformable:
          raise M.Unformable()
        at = [self.template(a) for a in args]
        kt = {n: self.template(a) for n, a in kwargs.items()}
        assert all(t[0] == 'const' for t in at + list(kt.values())), \
            'generator bug: ArgFactory under Config'
        return ('const', v.fn(*[t[1] for t in at],
                              **{n: t[1] for n, t in kt.items()}))
      if v.btype == 'Partial':
        return ('const', RefPartial(self, v))
      if v.btype == 'ArgFactory':
        args, kwargs, _, unformable = v.call_args()
        if unformable:
          raise M.Unformable()
        at = [self.template(a) for a in args]
        kt = {n: self.template(a) for n, a in kwargs.items()}
        fn = v.fn
        return ('dyn', lambda: fn(*[ev(t) for t in at],
                                  **{n: ev(t) for n, t in kt.items()}))
      raise NotImplementedError(v.btype)
    if isinstance(v, (list, tuple, dict)):
      if isinstance(v, dict):
        keys = list(v)
        ts = [self.template(v[k]) for k in keys]
      else:
        ts = [self.template(e) for e in v]
      if all(t[0] == 'const' for t in ts):
        vals = [t[1] for t in ts]
        if isinstance(v, dict):
          return ('const', dict(zip(keys, vals)))
        return ('const', type(v)(vals))
      if isinstance(v, dict):
        return ('dyn', lambda: dict(zip(keys, [ev(t) for t in ts])))
      typ = type(v)
      return ('dyn', lambda: typ([ev(t) for t in ts]))
    return ('const', v)


# --------------------------------------------------------------------------
# generation
# --------------------------------------------------------------------------
def gen_case(world, tier, prop):
  rng = world.stream('gen')
  defs = []
  ids = [0]
  tok = [5000]
  shared_const = []

  def new_id():
    ids[0] += 1
    return ids[0]

  def token():
    tok[0] += 1
    return tok[0]

  def fill(fn, uid, child):
    names, has_va, has_vk = SLOTS[fn]
    args, kwargs = [], {}
    if fn == 'n1':
      args = [uid]
      if rng.random() < 0.6:
        args.append(child())
        if rng.random() < 0.5:
          args += [child() for _ in range(rng.randint(1, 3))]  # y + *args
        elif rng.random() < 0.5:
          kwargs['y'] = child()
      if rng.random() < 0.3:
        kwargs['extra'] = child()
    elif fn == 'n4':
      args = [uid] + [child() for _ in range(rng.randint(0, 3))]
    else:
      kwargs['uid'] = uid
      for nm in names:
        if rng.random() < 0.5:
          kwargs[nm] = child()
    return args, kwargs

  def const_child(depth=0):
    r = rng.random()
    if r < 0.45 or depth >= 2:
      return token()
    if r < 0.55 and shared_const:
      return {'share': rng.choice(shared_const)}
    if r < 0.75:
      kind = rng.choice(['list', 'tuple', 'dict'])
      items = [const_child(depth + 1) for _ in range(rng.randint(0, 2))]
      d = ({'dict': [['k%d' % i, it] for i, it in enumerate(items)]}
           if kind == 'dict' else {kind: items})
      d['id'] = new_id()
      if kind != 'tuple' and rng.random() < 0.4:
        defs.append(d)
        shared_const.append(d['id'])
        return {'share': d['id']}
      return d
    fn = rng.choice(['n0', 'n1', 'N2', 'n4'])
    nid = new_id()
    args, kwargs = fill(fn, nid, lambda: const_child(depth + 1))
    d = {'node': {'btype': 'Config', 'fn': fn, 'args': args, 'kwargs': kwargs},
         'id': nid}
    if rng.random() < 0.4:
      defs.append(d)
      shared_const.append(nid)
      return {'share': nid}
    return d

  def factory(depth):
    if rng.random() < 0.25:
      # argument-less factory (equal to every other one of its kind)
      return {'node': {'btype': 'ArgFactory', 'fn': 'z0', 'args': [], 'kwargs': {}},
              'id': new_id()}
    fn = rng.choice(['n0', 'n1', 'N2', 'N3', 'n4', 'n5', 'n6'])
    nid = new_id()
    args, kwargs = fill(fn, nid, lambda: dyn_child(depth + 1, in_factory=True))
    return {'node': {'btype': 'ArgFactory', 'fn': fn, 'args': args,
                     'kwargs': kwargs}, 'id': nid}

  def partial(depth):
    fn = rng.choice(['n0', 'n1', 'N2', 'N3', 'n4', 'n5', 'n6'])
    nid = new_id()
    args, kwargs = fill(fn, nid, lambda: dyn_child(depth + 1))
    return {'node': {'btype': 'Partial', 'fn': fn, 'args': args,
                     'kwargs': kwargs}, 'id': nid}

  def dyn_child(depth, in_factory=False):
    r = rng.random()
    if depth >= 3:
      return const_child(2)
    if r < 0.08 and depth <= 1:
      # several sibling sub-containers that EACH hold a factory
      branches = []
      for _ in range(rng.randint(2, 3)):
        inner = [factory(depth + 1)] + ([const_child(1)] if rng.random() < 0.5 else [])
        rng.shuffle(inner)
        kind = rng.choice(['list', 'tuple', 'dict'])
        b = ({'dict': [['i%d' % j, it] for j, it in enumerate(inner)]}
             if kind == 'dict' else {kind: inner})
        b['id'] = new_id()
        branches.append(b)
      if rng.random() < 0.3:
        branches.insert(rng.randrange(len(branches) + 1), const_child(1))
      kind = rng.choice(['list', 'dict', 'tuple'])
      d = ({'dict': [['b%d' % j, it] for j, it in enumerate(branches)]}
           if kind == 'dict' else {kind: branches})
      d['id'] = new_id()
      return d
    if r < 0.40:
      return const_child()
    if r < 0.70:
      return factory(depth)
    if r < 0.78 and not in_factory:
      return partial(depth)
    kind = rng.choice(['list', 'tuple', 'dict'])
    items = [dyn_child(depth + 1, in_factory) for _ in range(rng.randint(1, 3))]
    d = ({'dict': [['k%d' % i, it] for i, it in enumerate(items)]}
         if kind == 'dict' else {kind: items})
    d['id'] = new_id()
    return d

  srng = world.stream('sig')
  spec = None
  if srng.random() < 0.3:
    # the ROOT Partial configures a callable with a GENERATED signature (every
    # parameter kind, with / without defaults, every callable kind)
    spec = stubs.gen_spec(srng, 'f0', kinds=('func', 'cls', 'cmeth', 'inst', 'part', 'data'))
    sv = stubs.SigView(stubs.install([spec])['f0'])
    npos = srng.randint(0, sv.P) if srng.random() < 0.6 else 0
    args = [dyn_child(1) for _ in range(npos)]
    if sv.va and npos == sv.P and srng.random() < 0.6:
      args += [dyn_child(1) for _ in range(srng.randint(1, 2))]
    kwargs = {}
    for nm in list(sv.pk) + list(sv.ko):
      if nm in sv.pk and sv.index_of[nm] < npos:
        continue
      d_ = sv.defaults.get(nm)
      if type(d_) in (bool, int, float) and srng.random() < 0.4:
        # explicitly configured with a value EQUAL to the default, of another type
        kwargs[nm] = {'const': srng.choice([i for i in (1, 2, 4)
                                            if type(M.CONST_POOL[i]) is not type(d_)])}
      elif srng.random() < 0.45:
        kwargs[nm] = dyn_child(1)
    if sv.vk and srng.random() < 0.3:
      kwargs['free'] = dyn_child(1)
    root = {'node': {'btype': 'Partial', 'fn': 'f0', 'args': args, 'kwargs': kwargs},
            'id': new_id()}
    names = list(sv.pk) + list(sv.ko) + (['free', 'free2'] if sv.vk else [])
  else:
    root = partial(0)
  defs.append(root)
  ops = [{'op': 'build'}]
  nb = 1
  rootfn = root['node']['fn']
  if spec is None:
    names = {'n0': ['x', 'y', 'z'], 'n1': ['y', 'extra', 'free'], 'N2': ['x', 'k'],
             'N3': ['x', 'y'], 'n4': [], 'n5': ['x'], 'n6': ['x', 'y', 'k']}[rootfn]
  for _ in range(rng.randint(2, 6)):
    if rng.random() < 0.15:
      ops.append({'op': 'build'})
      nb += 1
      continue
    over = {}
    for nm in names:
      if rng.random() < 0.3:
        over[nm] = token()
    if rng.random() < 0.1:
      over['uid'] = token()
    extra = []
    if rng.random() < 0.25:
      extra = [token() for _ in range(rng.randint(1, 2))]
    ops.append({'op': 'call', 'b': rng.randrange(nb), 'extra': extra,
                'over': over})
  frng = world.stream('fault')
  plan = {}
  uids = _factory_uids(root)
  if uids and frng.random() < 0.25:
    plan['fail'] = {'uid': frng.choice(uids), 'nth': frng.randint(1, 3)}
    if frng.random() < 0.6:
      plan['fail']['cls'] = frng.choice(sorted(FAILURE_CLASSES))
  elif uids and frng.random() < 0.2:
    plan['reenter'] = {'uid': frng.choice(uids)}
  if frng.random() < 0.2:
    plan['nested_build'] = True
  case = {'defs': defs, 'root': {'share': root['id']}, 'ops': ops,
          'decoys': rng.random() < 0.5, 'plan': plan}
  if spec is not None:
    case['spec'] = spec
  if srng.random() < 0.25:
    # the configuration goes through a copy / deepcopy / pickle round trip
    # before it is built (nothing observable may change)
    case['pre_swap'] = srng.choice(['pickle', 'pickle', 'deepcopy', 'copy'])
  return case


def _factory_uids(d, acc=None):
  """uids of the ArgFactory nodes (with a uid) inside a descriptor."""
  if acc is None:
    acc = []
  if isinstance(d, dict):
    nd = d.get('node')
    if nd and nd['btype'] == 'ArgFactory':
      u = nd['kwargs'].get('uid', nd['args'][0] if nd['args'] else None)
      if isinstance(u, int):
        acc.append(u)
    for v in d.values():
      _factory_uids(v, acc)
  elif isinstance(d, list):
    for v in d:
      _factory_uids(v, acc)
  return acc


class PlannedFailure(Exception):
  """Raised by a factory when the fault plan says so."""


# the class a failing factory raises: the plain one, or one that iteration /
# lookup / call machinery on the way out might take for its own signal
FAILURE_CLASSES = {
    'Planned': PlannedFailure, 'StopIteration': StopIteration,
    'StopAsyncIteration': StopAsyncIteration, 'KeyError': KeyError,
    'IndexError': IndexError, 'TypeError': TypeError,
    'AttributeError': AttributeError, 'RuntimeError': RuntimeError,
    'GeneratorExit': GeneratorExit,
}


# --------------------------------------------------------------------------
# execution
# --------------------------------------------------------------------------
def V(clause, msg, **extra):
  fp = {'property': 'C04', 'clause': clause}
  fp.update(extra)
  return {'fp': fp, 'msg': msg}


def features(case):
  s = C.short(case['defs'], 10 ** 9)
  return {'factory': '"ArgFactory"' in s,
          'nested_partial': s.count('"Partial"') > 1}


def run(case):
  rec = stubs.reset()
  fns = stubs.install(BUILD_STUBS + ([case['spec']] if case.get('spec') else []))
  fns['z0'] = stubmod.z0
  svs = {}
  mk_m = M.Maker('model', fns, svs)
  mk_i = M.Maker('impl', fns, svs)
  res = {'violations': [], 'faults': {}, 'probes': {}, 'steps': 0,
         'state_hashes': [], 'nontrivial': False}
  probes, faults = res['probes'], res['faults']
  for d in case['defs']:
    mk_m(d)
    mk_i(d)
  mroot, root = mk_m(case['root']), mk_i(case['root'])
  if case.get('pre_swap') and not any(k in C.short(case['defs'], 10 ** 9)
                                      for k in ('"n5"', '"uinst"', '"inst"', '"part"')):
    import pickle
    root = {'pickle': lambda c: pickle.loads(pickle.dumps(c)), 'deepcopy': copy.deepcopy,
            'copy': copy.copy}[case['pre_swap']](root)
    probes['built_from_a_copy'] = 1
  before = C.canon(root)
  feat = features(case)
  built_i, built_m = [], []
  results_i, results_m = [], []
  n_cfg = len([n for n in mk_m.nodes if n.btype == 'Config'])

  def reachable_configs():
    from machines.build import reachable_nodes
    return [n for n in reachable_nodes(mroot) if n.btype == 'Config']

  n_cfg = len(reachable_configs())
  if case.get('decoys'):
    # process history: factory-free Partials built and dropped earlier; their
    # built containers are dead and their addresses get recycled below
    import gc
    for i in range(40):
      fdl.build(fdl.Partial(fns['n0'], uid=-i, x=[i, [i], {'q': i}],
                            y={'k': [i], 'm': (i, [i])}, z=(i, [i, [i]])))
    gc.collect()
    del rec.log[:]
    probes['with_decoy_history'] = 1
  plan = case.get('plan') or {}
  side = {'now': None, 'callable': None, 'depth': 0}
  counts = {}
  planned = []     # the exceptions raised by the fault plan, in order

  def on_invoke(r):
    u = r.args.get('uid')
    if side.get('building') and plan.get('nested_build'):
      # a callable that is being built tries a build of its own and swallows
      # the refusal (C05 says it is refused; here it must simply not matter)
      try:
        fdl.build(fdl.Config(dict, a=1))
      except Exception:  # pylint: disable=broad-except
        faults['nested_build_refused'] = faults.get('nested_build_refused', 0) + 1
    if side['now'] is None:
      return
    if plan.get('fail') and u == plan['fail']['uid']:
      k = (side['now'], u)
      counts[k] = counts.get(k, 0) + 1
      if counts[k] == plan['fail']['nth']:
        faults['factory_raises'] = faults.get('factory_raises', 0) + 1
        cls = FAILURE_CLASSES[plan['fail'].get('cls', 'Planned')]
        exc = cls(f'factory {u} fails on its invocation #{counts[k]}')
        planned.append(exc)
        raise exc
    if plan.get('reenter') and u == plan['reenter']['uid'] and side['depth'] == 0:
      # the factory calls the very partial it is being evaluated for, with every
      # factory-backed keyword overridden (bounded, legitimate re-entrancy)
      side['depth'] += 1
      try:
        side['callable'](**side['over_all'])
        faults['reentrant_call'] = faults.get('reentrant_call', 0) + 1
      finally:
        side['depth'] -= 1
  rec.on_invoke = on_invoke
  for idx, op in enumerate(case['ops']):
    res['steps'] += 1
    if op['op'] == 'build':
      try:
        m = PM().template(mroot)[1]
        merr = None
      except (M.Unformable, TypeError) as e:
        res['discarded'] = 'reference-cannot-build'
        return res
      n0 = len(rec.log)
      try:
        side['building'] = True
        try:
          b = fdl.build(root)
        finally:
          side['building'] = False
      except Exception as e:  # pylint: disable=broad-except
        res['violations'].append(V(
            'build-raised', f'op #{idx}: fdl.build(Partial) raised '
            f'{type(e).__name__}: {C.norm_text(str(e))[:300]}', **feat))
        return res
      invoked = len(rec.log) - n0
      if invoked != n_cfg:
        res['violations'].append(V(
            'build-time-invocations',
            f'op #{idx}: building invoked {invoked} callables, expected '
            f'{n_cfg} (one per nested Config, none for Partial/ArgFactory)',
            **feat))
        return res
      if not callable(b):
        res['violations'].append(V('not-callable', f'op #{idx}: {type(b)}', **feat))
        return res
      built_i.append(b)
      built_m.append(m)
      probes['builds'] = probes.get('builds', 0) + 1
      continue
    bi = op['b'] % len(built_i)
    extra, over = list(op['extra']), dict(op['over'])
    ref = built_m[bi]
    dyn_kw = {n: 0 for n, t in ref.kwargs_t.items() if t[0] == 'dyn'}
    reenter_ok = not any(t[0] == 'dyn' for t in ref.args_t)
    side.update(now='model', callable=ref, over_all=dyn_kw)
    if not reenter_ok:
      side['depth'] = 1   # positional factories cannot be overridden: no re-entry
    n_planned = len(planned)
    try:
      rm = ref(*extra, **over)
      em = None
    except BaseException as e:  # pylint: disable=broad-except
      if not (isinstance(e, TypeError) or any(e is x for x in planned)):
        raise
      rm, em = None, e
    em_planned = len(planned) > n_planned
    if em_planned and not any(em is x for x in planned[n_planned:]):
      raise AssertionError('oracle: the reference swallowed a planned failure')
    side.update(now='impl', callable=built_i[bi])
    try:
      ri = built_i[bi](*extra, **over)
      ei = None
    except BaseException as e:  # pylint: disable=broad-except
      if isinstance(e, (KeyboardInterrupt, SystemExit)):
        raise
      ri, ei = None, e
    side.update(now=None, depth=0)
    if em_planned:
      # a factory failed part-way through this call: the call must fail the
      # same way, and LATER calls must be unaffected (checked by the next ops)
      # (the factory's own exception, or one that carries it as its cause --
      # Python itself turns a StopIteration crossing a generator into a
      # RuntimeError -- but never a normal return)
      chain, e_ = [], ei
      while e_ is not None and len(chain) < 10:
        chain.append(e_)
        e_ = e_.__cause__ or e_.__context__
      if not any(c is x for c in chain for x in planned[n_planned:]):
        res['violations'].append(V(
            'factory-failure-not-propagated',
            f'op #{idx} {op}: a factory raised but the call '
            + (f'returned {C.short(C.canon(ri, opaque_callables=True))}' if ei is None
               else f'raised {type(ei).__name__}: {C.norm_text(str(ei))[:200]}'), **feat))
        return res
      probes['calls_failed_by_factory'] = probes.get('calls_failed_by_factory', 0) + 1
      continue
    if em is not None:
      faults['rejected_op'] = faults.get('rejected_op', 0) + 1
      if ei is None:
        res['violations'].append(V(
            'invalid-call-accepted',
            f'op #{idx} {op}: functools.partial semantics refuse this call '
            f'({em}) but the built callable returned '
            + C.short(C.canon(ri, opaque_callables=True)), **feat))
        return res
      continue
    if ei is not None:
      res['violations'].append(V(
          'valid-call-raised',
          f'op #{idx} {op}: raised {type(ei).__name__}: '
          + C.norm_text(str(ei))[:300], **feat))
      return res
    results_i.append(ri)
    results_m.append(rm)
    probes['calls'] = probes.get('calls', 0) + 1
    if over:
      probes['calls_with_override'] = probes.get('calls_with_override', 0) + 1
    # nested partials handed to the callee: call them too (once, no args)
    for name in sorted(_rec_args(ri)):
      vi, vm = _rec_args(ri).get(name), _rec_args(rm).get(name)
      if isinstance(vi, functools.partial) and isinstance(vm, RefPartial):
        try:
          xm = vm()
        except TypeError:
          continue
        try:
          xi = vi()
        except Exception as e:  # pylint: disable=broad-except
          res['violations'].append(V(
              'valid-call-raised',
              f'op #{idx}: nested partial {name} raised {type(e).__name__}: '
              + C.norm_text(str(e))[:200], **feat))
          return res
        results_i.append(xi)
        results_m.append(xm)
        probes['nested_partial_calls'] = probes.get('nested_partial_calls', 0) + 1
    a = C.canon(results_m, opaque_callables=True)
    b = C.canon(results_i, opaque_callables=True)
    if a != b:
      res['violations'].append(V(
          'results-differ',
          f'after op #{idx} {op}: canon of all call results so far '
          '(values, freshness, sharing) differs from the reference: '
          + '; '.join(C.diff(a, b)), **feat))
      return res
  if C.canon(root) != before:
    res['violations'].append(V('config-modified', 'build/call modified the config', **feat))
  if feat['factory']:
    probes['with_arg_factory'] = 1
  if feat['nested_partial']:
    probes['with_nested_partial'] = 1
  res['nontrivial'] = len(results_i) >= 2
  res['state_hashes'] = [stable_hash(C.canon(results_m, opaque_callables=True))]
  return res


def _rec_args(r):
  rec = r if isinstance(r, stubmod.Rec) else getattr(r, '_fsim_rec', None)
  return rec.args if rec is not None else {}


# --------------------------------------------------------------------------
# shrinking
# --------------------------------------------------------------------------
def _prune(d, fn_):
  """Yields copies of descriptor d with one sub-descriptor simplified."""
  if isinstance(d, dict):
    if 'node' in d:
      nd = d['node']
      for i in range(len(nd['args']) - 1, 0, -1):
        c = copy.deepcopy(d)
        del c['node']['args'][i]
        yield c
      for k in list(nd['kwargs']):
        if k == 'uid':
          continue
        c = copy.deepcopy(d)
        del c['node']['kwargs'][k]
        yield c
      for i, a in enumerate(nd['args']):
        for sub in _prune(a, fn_):
          c = copy.deepcopy(d)
          c['node']['args'][i] = sub
          yield c
        if isinstance(a, dict) and i > 0:
          c = copy.deepcopy(d)
          c['node']['args'][i] = 7
          yield c
      for k, a in nd['kwargs'].items():
        for sub in _prune(a, fn_):
          c = copy.deepcopy(d)
          c['node']['kwargs'][k] = sub
          yield c
        if isinstance(a, dict):
          c = copy.deepcopy(d)
          c['node']['kwargs'][k] = 7
          yield c
    else:
      for key in ('list', 'tuple'):
        if key in d:
          for i, a in enumerate(d[key]):
            c = copy.deepcopy(d)
            del c[key][i]
            yield c
            for sub in _prune(a, fn_):
              c = copy.deepcopy(d)
              c[key][i] = sub
              yield c
      if 'dict' in d:
        for i, (k, a) in enumerate(d['dict']):
          c = copy.deepcopy(d)
          del c['dict'][i]
          yield c
          for sub in _prune(a, fn_):
            c = copy.deepcopy(d)
            c['dict'][i][1] = sub
            yield c


def shrink_candidates(case):
  ops = case['ops']
  for shorter in S.ddmin_candidates(ops[1:]):
    c = copy.deepcopy(case)
    c['ops'] = [ops[0]] + copy.deepcopy(shorter)
    yield c
  for i, op in enumerate(ops):
    if op['op'] == 'call':
      if op['extra']:
        c = copy.deepcopy(case)
        c['ops'][i]['extra'] = []
        yield c
      for k in op['over']:
        c = copy.deepcopy(case)
        del c['ops'][i]['over'][k]
        yield c
  for i, d in enumerate(case['defs']):
    for sub in _prune(d, None):
      c = copy.deepcopy(case)
      c['defs'][i] = sub
      yield c


class Machine:
  name = 'partial'
  properties = ('C04',)

  def gen(self, world, tier, prop):
    return gen_case(world, tier, prop)

  def run(self, case):
    try:
      return run(case)
    except KeyError:
      if case.get('_shrunk'):
        return {'violations': [], 'discarded': 'dangling'}
      raise
    finally:
      stubs.CURRENT.on_invoke = None

  def shrink_candidates(self, case):
    for c in shrink_candidates(case):
      c['_shrunk'] = True
      yield c

  def size(self, case):
    return len(case['ops']) + len(C.short(case['defs'], 10 ** 9)) // 40

  def sample(self, case, res):
    return {'root': case['defs'][-1], 'ops': case['ops'][:6]}


MACHINE = Machine()
