"""Build machine: random DAG of Buildables, built fault-free (C02: exactly-once,
ordering, identity mirror, no sharing between builds) and then with EVERY
Config node in turn as the failing node (C05: faithful exception, path, no
invocation afterwards, config unmodified, next build fine, nested build
rejected).

Fault kinds: callable_raises, format_raises, nested_build.
"""
from __future__ import annotations

import collections
import copy
import functools
import re

import fiddle as fdl

from fsim import canon as C
from fsim import model as M
from fsim import shrink as S
from fsim import stubmod
from fsim import stubs
from fsim.world import stable_hash

BUILD_STUBS = [
    {'name': 'n0', 'kind': 'func',
     'params': [['uid', 'pk', None], ['x', 'pk', 'v'], ['y', 'pk', 'v'],
                ['z', 'pk', 'v']]},
    {'name': 'n1', 'kind': 'func',
     'params': [['uid', 'po', None], ['x', 'po', 'v'], ['y', 'pk', 'v'],
                ['args', 'va', None], ['kw', 'vk', None]]},
    {'name': 'N2', 'kind': 'cls',
     'params': [['uid', 'pk', None], ['x', 'pk', 'v'], ['k', 'ko', 'v']]},
    {'name': 'N3', 'kind': 'data',
     'params': [['uid', 'pk', None], ['x', 'pk', 'v'], ['y', 'pk', 'f']]},
    {'name': 'n4', 'kind': 'cmeth',
     'params': [['uid', 'pk', None], ['args', 'va', None]]},
    {'name': 'n5', 'kind': 'inst',
     'params': [['uid', 'pk', None], ['x', 'pk', 'v']]},
    # same as n0 except for one parameter: update_callable target
    {'name': 'n0b', 'kind': 'func',
     'params': [['uid', 'pk', None], ['x', 'pk', 'v'], ['y', 'pk', 'v'],
                ['w', 'pk', 'v']]},
    # takes anything by keyword: an update_callable target that keeps every
    # named argument (as a **kwargs entry)
    {'name': 'n7', 'kind': 'func',
     'params': [['uid', 'pk', None], ['x', 'pk', 'v'], ['kw', 'vk', None]]},
    # a functools.partial object whose own str() runs a hostile __repr__ (of the
    # pre-bound argument) while a diagnostic is being formatted
    {'name': 'n8', 'kind': 'part',
     'params': [['h', 'pk', None], ['uid', 'pk', None], ['x', 'pk', 'v']],
     'pre': {'pos_src': ['Hostile()']}},
    # a mutable container as a parameter default
    {'name': 'n12', 'kind': 'func',
     'params': [['uid', 'pk', None], ['x', 'pk', 'l'], ['y', 'pk', 'v']]},
    # tag annotations on a positional-only parameter and on *args / **kwargs
    {'name': 'n10', 'kind': 'func',
     'params': [['uid', 'po', None], ['x', 'po', 'v', ['T1']],
                ['y', 'pk', 'v', ['U0']], ['args', 'va', None, ['T2']],
                ['kw', 'vk', None, ['T0']]]},
    # a tag annotation given as a STRING that names a module global which does
    # not exist yet when the first configurations are made (forward reference)
    {'name': 'n9', 'kind': 'func',
     'params': [['uid', 'pk', None], ['x', 'pk', 'v', {'late': 'LATE_A'}],
                ['y', 'pk', 'v']]},
    # two callables whose names differ in case style only (name-derived keys)
    {'name': 'CamelNode', 'kind': 'cls',
     'params': [['uid', 'pk', None], ['x', 'pk', 'v']]},
    {'name': 'camel_node', 'kind': 'func',
     'params': [['uid', 'pk', None], ['x', 'pk', 'v']]},
    # tags attached by annotation (and a cold type-hints cache per run)
    {'name': 'n6', 'kind': 'func',
     'params': [['uid', 'pk', None], ['x', 'pk', 'v', ['T1']],
                ['y', 'pk', 'v', ['U0', 'T0']], ['k', 'ko', 'v']]},
]
SLOTS = {
    'n0': (['x', 'y', 'z'], False, False),
    'n1': (['x', 'y'], True, True),
    'N2': (['x', 'k'], False, False),
    'N3': (['x', 'y'], False, False),
    'n4': ([], True, False),
    'n5': (['x'], False, False),
    'n6': (['x', 'y', 'k'], False, False),
    'n0b': (['x', 'y', 'w'], False, False),
    'n8': (['x'], False, False),
    'n12': (['y'], False, False),
}
POSITIONAL = {'n1': ['uid', 'x']}  # positional-only names, in order

# a path printed after the original message: <root> followed by .name / [key]
_PATH_RE = re.compile(r"""<root>((?:\.\w+|\[(?:\d+|'[^']*'|"[^"]*")\])*)""")


# --------------------------------------------------------------------------
# generation
# --------------------------------------------------------------------------
def gen_case(world, tier, prop):
  rng = world.stream('gen')
  frng = world.stream('fault')
  big = tier == 'thorough'
  defs = []
  node_ids = []       # ids of Config/Partial defs
  cont_ids = []       # ids of shareable containers
  tok = [1000]
  ids = [0]
  use_late = rng.random() < 0.12   # a node type registered after its first use

  def new_id():
    ids[0] += 1
    return ids[0]

  def token():
    tok[0] += 1
    return tok[0]

  def child(depth=0):
    r = rng.random()
    if r < 0.08:
      return {'const': rng.randrange(14)}
    if r < 0.30 or (not node_ids and r < 0.7):
      return token()
    if r < 0.70 and node_ids:
      # bias towards recent nodes for depth, sometimes any for diamonds
      j = node_ids[-1 - min(len(node_ids) - 1, int(rng.random() ** 2 * len(node_ids)))]
      return {'share': j}
    if r < 0.76 and cont_ids:
      return {'share': rng.choice(cont_ids)}
    if r < 0.80:
      return {'hostile': 1}
    if r < 0.84 and depth >= 1:
      # a filled TaggedValue placeholder INSIDE a container (as a direct argument
      # it would be unwrapped on assignment): builds to its value's built object
      inner = ({'share': node_ids[-1 - min(len(node_ids) - 1, int(rng.random() ** 2 * len(node_ids)))]}
               if node_ids and rng.random() < 0.7 else token())
      return {'tv': {'tags': [rng.choice(['T0', 'T1', 'U0'])], 'value': inner}}
    if depth >= 2:
      return token()
    kind = rng.choice(['list', 'list', 'tuple', 'dict', 'box', 'nt']
                      + (['late', 'late'] if use_late else []))
    n = 2 if kind == 'nt' else rng.randint(0, 3)
    items = [child(depth + 1) for _ in range(n)]
    cid = new_id()
    if kind == 'dict':
      d = {'dict': [['k%d' % i, it] for i, it in enumerate(items)], 'id': cid}
    else:
      d = {kind: items, 'id': cid}
    share_p = 0.5 if kind in ('list', 'dict', 'box') else (
        0.35 if 'share' in C.short(d, 10 ** 6) or '"node"' in C.short(d, 10 ** 6) else 0.0)
    if rng.random() < share_p:   # (tuples / named tuples: only when they hold a Buildable)
      # becomes shareable once made; its definition is hoisted into defs
      defs.append(d)
      cont_ids.append(cid)
      return {'share': cid}
    return d

  def make_node(i, fn=None, only_child=None):
    fn = fn or rng.choice(list(SLOTS))
    names, has_va, has_vk = SLOTS[fn]
    btype = 'Config' if rng.random() < 0.88 else 'Partial'
    args, kwargs = [], {}
    if fn == 'n1':
      args = [i]
      if only_child is not None or rng.random() < 0.6:
        args.append(only_child if only_child is not None else child())
        if rng.random() < 0.5 and only_child is None:
          kwargs['y'] = child()
          if rng.random() < 0.4:
            args = args + [kwargs.pop('y')] + [child() for _ in range(rng.randint(1, 2))]
      if has_vk and rng.random() < 0.3:
        kwargs['extra'] = child()
    elif fn == 'n4':
      args = [i] + ([only_child] if only_child is not None
                    else [child() for _ in range(rng.randint(0, 3))])
    else:
      kwargs['uid'] = i
      if only_child is not None:
        kwargs[names[0]] = only_child
      else:
        for nm in names:
          if rng.random() < 0.55:
            kwargs[nm] = child()
    return {'node': {'btype': btype, 'fn': fn, 'args': args, 'kwargs': kwargs},
            'id': i}

  n = rng.randint(1, 12 if big else 9)
  over_budget = rng.random() < 0.03
  if over_budget:
    # a chain just beyond the recursion budget, next to a sibling that is built
    # first: fdl.build must fail as a whole (RecursionError), not half-redo
    sib = new_id()
    defs.append({'node': {'btype': 'Config', 'fn': 'n0', 'args': [],
                          'kwargs': {'uid': sib, 'x': token()}}, 'id': sib})
    prev = None
    for _ in range(rng.randint(210, 270)):
      i = new_id()
      defs.append({'node': {'btype': 'Config', 'fn': 'n0', 'args': [],
                            'kwargs': {'uid': i, 'x': ({'share': prev} if prev is not None else token())}},
                   'id': i})
      prev = i
    top = new_id()
    defs.append({'node': {'btype': 'Config', 'fn': 'n0', 'args': [],
                          'kwargs': {'uid': top, 'x': {'share': sib}, 'y': {'share': prev}}},
                 'id': top})
    return {'defs': defs, 'root': {'share': top}, 'shape': 'ValueError', 'fmt': None,
            'nested': False, 'only_uid': None, 'over_budget': True}
  if rng.random() < 0.08:
    # deep chain
    depth = rng.randint(20, 60 if big else 35)
    prev = None
    for _ in range(depth):
      i = new_id()
      d = make_node(i, fn=rng.choice(['n0', 'n1', 'N2', 'n4']),
                    only_child=({'share': prev} if prev is not None else token()))
      d['node']['btype'] = 'Config'
      defs.append(d)
      node_ids.append(i)
      prev = i
  for _ in range(n):
    i = new_id()
    if node_ids and rng.random() < 0.12:
      # equal-but-distinct twin of an earlier node (same uid!)
      pick = rng.choice(node_ids)
      src = next(d for d in defs if d.get('id') == pick)
      d = copy.deepcopy(src)
      d['id'] = i
      # nested inline containers get fresh ids
      _refresh_ids(d['node'], i * 100000)
    else:
      d = make_node(i)
    defs.append(d)
    node_ids.append(i)
  r = rng.random()
  if r < 0.7:
    root = {'share': node_ids[-1]}
  elif r < 0.85:
    root = {'list': [{'share': rng.choice(node_ids)} for _ in range(rng.randint(1, 3))], 'id': 900001}
  else:
    root = {'dict': [['r%d' % k, {'share': rng.choice(node_ids)}] for k in range(rng.randint(1, 3))], 'id': 900002}
  full = [s for s in stubmod.EXC_SHAPES
          if s not in ('B_Base', 'SystemExit', 'GeneratorExit',
                       'KeyboardInterrupt', 'NoSubclassHook', 'FinalMeta',
                       'TransientHook')]
  degraded = [s for s in stubmod.EXC_SHAPES if s not in full]
  shape = frng.choice(full) if frng.random() < 0.75 else frng.choice(degraded)
  fmt = frng.choice([None, None, None, 'exc', 'base'])
  nested = frng.random() < 0.3
  nested_kind = {}
  if nested and frng.random() < 0.6:
    nested_kind = {'arg': frng.choice(['config', 'partial', 'list', 'dict', 'number',
                                       'none', 'string', 'built', 'given']),
                   'later': frng.random() < 0.5}
    if frng.random() < 0.4:
      nested_kind['prelude'] = frng.choice(['unconfig_ok', 'unconfig_fails'])
  case = {'defs': defs, 'root': root, 'shape': shape, 'fmt': fmt,
          'nested': nested, 'nested_kind': nested_kind, 'only_uid': None,
          'mutating': frng.random() < 0.25, 'sticky': frng.random() < 0.2,
          'refused': frng.random() < 0.2, 'late': use_late}
  erng = world.stream('edit')
  if erng.random() < 0.3:
    case['edits'] = gen_edits(erng, defs, node_ids, new_id, token)
  if erng.random() < 0.2:
    case['unconfig_before_raise'] = erng.choice(['ok', 'fails'])
  if erng.random() < 0.2:
    case['swapped'] = True
  if erng.random() < 0.2:
    case['historyless'] = True
  return case


EDITABLE = {'n0': ['x', 'y', 'z'], 'n1': ['y'], 'N2': ['x', 'k'], 'N3': ['x'],
            'n5': ['x'], 'n6': ['x', 'y', 'k'], 'n0b': ['x', 'y', 'w'], 'n12': ['y']}


def gen_edits(rng, defs, node_ids, new_id, token):
  """Edits applied BETWEEN builds of the same configuration (some of them while
  history tracking is suspended): attach a new / an existing Buildable, replace
  or unset an argument.  Only earlier-defined nodes are attached (no cycles)."""
  by_id = {d['id']: d for d in defs if 'node' in d}

  def uid(d):
    nd = d['node']
    return nd['kwargs']['uid'] if 'uid' in nd['kwargs'] else nd['args'][0]
  uids = [uid(d) for d in by_id.values()]
  # (equal-but-distinct twins carry one uid; they stay equal, i.e. unedited)
  editable = [i for i in node_ids if uids.count(uid(by_id[i])) == 1]
  edits = []
  for _ in range(rng.randint(1, 4)):
    if not editable:
      break
    i = rng.choice(editable)
    names = EDITABLE.get(by_id[i]['node']['fn'])
    if not names:
      continue
    earlier = [j for j in node_ids if j < i]

    def val():
      r = rng.random()
      if r < 0.3 or not earlier:
        return token()
      return {'share': rng.choice(earlier)}
    r = rng.random()
    if r < 0.45:
      nid = new_id()
      v = {'node': {'btype': 'Config', 'fn': 'n0', 'args': [],
                    'kwargs': {'uid': nid, 'x': val()}}, 'id': nid}
    elif r < 0.6:
      v = {'list': [val(), val()], 'id': new_id()}
    else:
      v = val()
    e = {'n': i, 'name': rng.choice(names), 'v': v, 'suspend': rng.random() < 0.5}
    if rng.random() < 0.15:
      e['del'] = True
    edits.append(e)
  return edits


def _refresh_ids(x, base):
  if isinstance(x, dict):
    if 'id' in x and 'node' not in x:
      x['id'] = x['id'] + base
    for v in x.values():
      _refresh_ids(v, base)
  elif isinstance(x, list):
    for v in x:
      _refresh_ids(v, base)


# --------------------------------------------------------------------------
# helpers over the model graph (the independent walk)
# --------------------------------------------------------------------------
def children_of(v):
  if isinstance(v, M.MNode):
    return list(v.storage().values())
  if isinstance(v, (list, tuple)):
    return list(v)
  if isinstance(v, dict):
    return list(v.values())
  if isinstance(v, (stubmod.TempBox, stubmod.LateBox)):
    return list(v.children)
  return []


def reachable_nodes(root):
  """MNodes reachable from root, post-order, each instance once."""
  seen, out = set(), []

  def go(v):
    if id(v) in seen:
      return
    if isinstance(v, (M.MNode, list, dict, stubmod.TempBox, stubmod.LateBox)):
      seen.add(id(v))
    for c in children_of(v):
      go(c)
    if isinstance(v, M.MNode):
      out.append(v)
  go(root)
  return out


def deps_of(node):
  return [d for d in reachable_nodes(node) if d is not node]


def uid_of(m: M.MNode):
  if 'uid' in m.named:
    return m.named['uid']
  return m.pos.get(0)


def cfg_uid(b):
  a = b.__arguments__
  return a.get('uid', a.get(0))


def mirror(mv, bv, mapping, errs, path='$'):
  """Parallel walk model graph / built graph; fills mapping id(m)->built."""
  if len(errs) > 3:
    return
  if isinstance(mv, M.MNode):
    prev = mapping.get(id(mv))
    if prev is not None:
      if prev[1] is not bv:
        errs.append(f'{path}: one Buildable instance received two different '
                    'built objects')
      return
    mapping[id(mv)] = (mv, bv)
    if mv.btype == 'Config':
      rec = bv if isinstance(bv, stubmod.Rec) else getattr(bv, '_fsim_rec', None)
      if rec is None:
        errs.append(f'{path}: built value is not a stub result: {type(bv)}')
        return
      args, kwargs, _, _ = mv.call_args()
      ba = mv.sv.sig.bind(*args, **kwargs)
      for name, sub in ba.arguments.items():
        got = rec.args.get(name, None)
        mirror(sub, got, mapping, errs, f'{path}.{name}')
    elif mv.btype == 'TaggedValueCls':
      if 'value' in mv.named:
        mirror(mv.named['value'], bv, mapping, errs, f'{path}.value')
    elif mv.btype == 'Partial':
      if not isinstance(bv, functools.partial):
        errs.append(f'{path}: Partial did not build a functools.partial')
        return
      args, kwargs, _, _ = mv.call_args()
      for i, (a, b) in enumerate(zip(args, bv.args)):
        mirror(a, b, mapping, errs, f'{path}[{i}]')
      for k, a in kwargs.items():
        mirror(a, bv.keywords.get(k), mapping, errs, f'{path}.{k}')
    return
  if isinstance(mv, (list, dict, stubmod.TempBox, stubmod.LateBox)):
    prev = mapping.get(id(mv))
    if prev is not None:
      if prev[1] is not bv:
        errs.append(f'{path}: one container instance received two different '
                    'built containers')
      return
    mapping[id(mv)] = (mv, bv)
  if isinstance(mv, (list, tuple)) and isinstance(bv, (list, tuple)):
    for i, (a, b) in enumerate(zip(mv, bv)):
      mirror(a, b, mapping, errs, f'{path}[{i}]')
  elif isinstance(mv, dict) and isinstance(bv, dict):
    for k in mv:
      mirror(mv[k], bv.get(k), mapping, errs, f'{path}[{k!r}]')
  elif isinstance(mv, (stubmod.TempBox, stubmod.LateBox)) and isinstance(bv, type(mv)):
    for i, (a, b) in enumerate(zip(mv.children, bv.children)):
      mirror(a, b, mapping, errs, f'{path}[{i}]')


def built_objects(v, acc=None):
  """ids -> object of everything build() creates (results and containers)."""
  if acc is None:
    acc = {}
  if id(v) in acc:
    return acc
  if v is stubmod.DEFAULT_LIST:
    return acc    # the callable's OWN default object (an unset parameter): Python's doing
  rec = v if isinstance(v, stubmod.Rec) else getattr(v, '_fsim_rec', None)
  if isinstance(rec, stubmod.Rec):
    acc[id(v)] = v
    for a in rec.args.values():
      built_objects(a, acc)
  elif isinstance(v, functools.partial):
    acc[id(v)] = v
    for a in v.args:
      built_objects(a, acc)
    for a in v.keywords.values():
      built_objects(a, acc)
  elif isinstance(v, (list, tuple)):
    if isinstance(v, list):
      acc[id(v)] = v
    for a in v:
      built_objects(a, acc)
  elif isinstance(v, dict):
    acc[id(v)] = v
    for a in v.values():
      built_objects(a, acc)
  elif isinstance(v, (stubmod.TempBox, stubmod.LateBox)):
    acc[id(v)] = v
    for a in v.children:
      built_objects(a, acc)
  return acc


def log_uid(rec):
  return rec.args.get('uid')


# --------------------------------------------------------------------------
# execution
# --------------------------------------------------------------------------
def V(prop, clause, msg, **extra):
  fp = {'property': prop, 'clause': clause}
  fp.update(extra)
  return {'fp': fp, 'msg': msg}


def check_trace_prefix(log, nodes_by_uid, dep_uids, errs):
  """C02 trace rules on a (possibly truncated) invocation log."""
  seen = {}
  for rec in log:
    u = log_uid(rec)
    seen[u] = seen.get(u, 0) + 1
    if seen[u] > len(nodes_by_uid.get(u, ())):
      errs.append(f'uid {u} invoked {seen[u]} times but only '
                  f'{len(nodes_by_uid.get(u, ()))} instance(s) exist')
    for d in dep_uids.get(u, ()):
      if d not in seen:
        errs.append(f'uid {u} invoked before its dependency uid {d}')


def run(case):
  rec = stubs.reset()
  fns = stubs.install(BUILD_STUBS)
  svs = {}
  mk_m = M.Maker('model', fns, svs)
  mk_i = M.Maker('impl', fns, svs)
  stubmod.Hostile.mode = None
  stubmod.Hostile.fired = 0
  stubmod.E_TransientHook.armed[0] = True
  res = {'violations': [], 'faults': {}, 'probes': {}, 'steps': 0,
         'state_hashes': [], 'nontrivial': False}
  faults, probes, viols = res['faults'], res['probes'], res['violations']

  def bump(d, k, n=1):
    d[k] = d.get(k, 0) + n

  import contextlib as _ctx
  from fiddle._src import history as _hist
  with (_hist.suspend_tracking() if case.get('historyless') else _ctx.nullcontext()):
    # (historyless: made while tracking is suspended, like a configuration that
    # was loaded from JSON: no history at all, not even for the callable)
    for d in case['defs']:
      mk_m(d)
      mk_i(d)
    mroot, root = mk_m(case['root']), mk_i(case['root'])
  if case.get('historyless'):
    bump(probes, 'configuration_without_history')
  if case.get('late') and any(isinstance(o, stubmod.LateBox) for o in _all_values(mroot)):
    # history: the type is met as an unregistered leaf by a first traversal,
    # and only then gets its traverser
    try:
      fdl.build(root)
    except Exception:  # pylint: disable=broad-except
      pass
    del rec.log[:]
    stubmod.register_latebox()
    probes['late_registered_type'] = 1
  elif case.get('late'):
    stubmod.register_latebox()
  rec.mutate_args = bool(case.get('mutating'))
  if case.get('refused'):
    # state left behind by an operation that is REFUSED: swapping the callable
    # for one that lacks an argument the node has (raises TypeError)
    from fiddle._src import mutate_buildable
    swap = {'n0': ('z', 'n0b'), 'n0b': ('w', 'n0')}
    done = 0
    for b in mk_i.nodes:
      name = getattr(b.__fn_or_cls__, '__name__', None)
      if name in swap and swap[name][0] in b.__arguments__ and done < 2:
        try:
          mutate_buildable.update_callable(b, fns[swap[name][1]])
        except TypeError:
          done += 1
          bump(faults, 'refused_op')
        else:
          raise AssertionError('harness: update_callable was expected to be refused')
  # n12 has a mutable container as the default of `x`: half of its configurations
  # store that very object explicitly (`cfg.x = cfg.x`, what materialize_defaults
  # does); building must still hand the callable a built copy of it
  for bm, bi in zip(mk_m.nodes, mk_i.nodes):
    if getattr(bi.__fn_or_cls__, '__name__', None) == 'n12' and uid_of(bm) is not None \
        and isinstance(uid_of(bm), int) and uid_of(bm) % 2 == 0 and 'x' not in bi.__arguments__:
      bi.x = bi.x
      bm.named['x'] = bm.sv.defaults['x']
      bump(probes, 'mutable_default_stored_explicitly')
  if case.get('swapped') and not case.get('refused'):
    # history: a SUCCESSFUL update_callable(drop_invalid_args=True) on nodes
    # whose dropped argument carries a tag (the tag stays behind)
    from fiddle._src import mutate_buildable
    from fiddle._src import tagging as _tagging
    swap = {'n0': ('z', 'n0b'), 'n0b': ('w', 'n0')}
    done = 0
    all_uids = [uid_of(x) for x in mk_m.nodes]
    for bm, bi in zip(mk_m.nodes, mk_i.nodes):
      name = getattr(bi.__fn_or_cls__, '__name__', None)
      if all_uids.count(uid_of(bm)) > 1:
        continue     # (equal-but-distinct twins carry one uid: they stay equal)
      if name in swap and swap[name][0] in bi.__arguments__ and done < 3:
        arg, new_fn = swap[name]
        _tagging.add_tag(bi, arg, stubmod.TAGS['T0'])
        mutate_buildable.update_callable(bi, fns[new_fn], drop_invalid_args=True)
        bm.named.pop(arg, None)
        bm.fn, bm.sv = fns[new_fn], mk_m.sv(new_fn)
        done += 1
    if done:
      bump(probes, 'callable_swapped_leaving_a_tag', done)
  def fault_free_phase(n_builds, label):
    """Direct evaluation of the CURRENT model graph, then n_builds fault-free
    fdl.build calls checked against it.  Returns the derived tables, or None
    if the run is over (violation / discarded)."""
    nodes = reachable_nodes(mroot)
    cfg_nodes = [n for n in nodes if n.btype == 'Config']
    if not cfg_nodes:
      res['discarded'] = 'no-config-node'
      return None
    nodes_by_uid = {}
    for n in cfg_nodes:
      nodes_by_uid.setdefault(uid_of(n), []).append(n)
    dep_uids = {uid_of(n): {uid_of(d) for d in deps_of(n) if d.btype == 'Config'}
                for n in cfg_nodes}
    if len(nodes) > len({uid_of(n) for n in nodes}):
      bump(probes, 'equal_but_distinct_nodes')
    if any(isinstance(o, stubmod.TempBox) for o in _all_values(mroot)):
      bump(probes, 'tempbox_in_dag')
    depth = _depth(mroot)
    if depth >= 20:
      bump(probes, 'deep_chain')
    res['case_hash'] = stable_hash([case['defs'], case['root']])
    before = C.canon(root)
    res['state_hashes'].append(stable_hash(before))

    # ---- expected result: the property sentence executed ------------------
    del rec.log[:]
    try:
      expected = M.model_build(mroot, {})
    except (M.Unformable, TypeError):
      res['discarded'] = 'unformable-dag'
      return None
    exp_canon = C.canon(expected)
    n_direct = len(rec.log)
    if n_direct != len(cfg_nodes):
      raise AssertionError('oracle: direct evaluation did not call once per node')

    # ---- C02: two fault-free builds ----------------------------------------
    results = []
    for b in range(n_builds):
      del rec.log[:]
      try:
        out = fdl.build(root)
      except RecursionError:
        if case.get('over_budget'):
          # beyond the recursion budget the property does not ask for a result;
          # what it forbids is a build that RETURNS after redoing invocations
          res['discarded'] = 'beyond-recursion-budget'
          res['probes']['over_budget_chain_refused'] = 1
          return None
        raise
      except Exception as e:  # pylint: disable=broad-except
        viols.append(V('C02', 'fault-free-build-raised',
                       f'{label}build #{b} raised {type(e).__name__}: {C.norm_text(str(e))[:300]}'))
        return None
      res['steps'] += len(rec.log)
      results.append(out)
      log = list(rec.log)
      now = C.canon(root)
      if now != before:
        viols.append(V('C05', 'config-modified',
                       f'{label}fault-free build #{b} modified the configuration: '
                       + '; '.join(C.diff(before, now)), shape='none', fmt=None))
        return None
      got = C.canon(out)
      if got != exp_canon:
        viols.append(V('C02', 'graph-mismatch',
                       f'{label}build #{b}: built graph != direct evaluation: '
                       + '; '.join(C.diff(exp_canon, got))))
        return None
      if len(log) != len(cfg_nodes):
        viols.append(V('C02', 'invocation-count',
                       f'{label}build #{b}: {len(log)} invocations for '
                       f'{len(cfg_nodes)} distinct Config instances'))
        return None
      errs = []
      mapping = {}
      mirror(mroot, out, mapping, errs)
      recs = {}
      for mid, (mn, bv) in mapping.items():
        if isinstance(mn, M.MNode) and mn.btype == 'Config':
          r = bv if isinstance(bv, stubmod.Rec) else getattr(bv, '_fsim_rec', None)
          if r is None:
            continue
          if id(r) in recs and recs[id(r)] is not mn:
            errs.append('two distinct Buildable instances share one built object')
          recs[id(r)] = mn
      if not errs and {id(r) for r in log} != set(recs):
        errs.append('set of invocations != set of results referenced by the graph')
      if not errs:
        for r in log:
          mn = recs[id(r)]
          for d in deps_of(mn):
            if d.btype != 'Config':
              continue
            dr = mapping[id(d)][1]
            dr = dr if isinstance(dr, stubmod.Rec) else dr._fsim_rec
            if dr.serial > r.serial:
              errs.append(f'uid {uid_of(mn)} invoked before its dependency '
                          f'uid {uid_of(d)}')
      if errs:
        viols.append(V('C02', 'identity-or-order', f'{label}build #{b}: ' + '; '.join(errs[:3])))
        return None
    shared = (set(built_objects(results[0])) & set(built_objects(results[1]))
              if len(results) > 1 else None)
    if shared:
      viols.append(V('C02', 'builds-share-objects',
                     f'{len(shared)} built object(s) are shared between two '
                     'separate fdl.build calls'))
      return None
    if C.canon(root) != before:
      viols.append(V('C05', 'config-modified', 'fault-free build modified the config',
                     shape='none', fmt=None))
      return None
    bump(probes, 'fault_free_builds', n_builds)
    return (nodes, cfg_nodes, nodes_by_uid, dep_uids, exp_canon, before)


  tables = fault_free_phase(2, '')
  if tables is None:
    return res
  if case.get('edits'):
    # ---- history: the same configuration is edited and built again ------
    from fiddle._src import history as _history
    import contextlib
    for e in case['edits']:
      nm, ni = mk_m.memo[e['n']], mk_i.memo[e['n']]
      if not nm.can_setattr(e['name']):
        continue      # (the node's callable was swapped for one without it)
      if e.get('del'):
        if e['name'] not in nm.named:
          continue
        nm.delattr(e['name'])
        with (_history.suspend_tracking() if e['suspend'] else contextlib.nullcontext()):
          delattr(ni, e['name'])
      else:
        nm.setattr(e['name'], mk_m(e['v']))
        v_i = mk_i(e['v'])
        with (_history.suspend_tracking() if e['suspend'] else contextlib.nullcontext()):
          setattr(ni, e['name'], v_i)
      bump(probes, 'edit_between_builds')
      if e['suspend']:
        bump(probes, 'edit_while_tracking_suspended')
    tables = fault_free_phase(2, 'after edits: ')
    if tables is None:
      return res
  nodes, cfg_nodes, nodes_by_uid, dep_uids, exp_canon, before = tables

  # ---- C05: every Config node as the failing node ------------------------
  shape, fmt = case['shape'], case['fmt']
  targets = sorted(nodes_by_uid, key=lambda u: (str(type(u)), u))
  if case.get('only_uid') is not None:
    targets = [u for u in targets if u == case['only_uid']]
  alive = []   # escaped exceptions stay referenced: proxy classes stay cached
  for u in targets:
    exc, expect = stubmod.make_exception(shape, u)
    if (case.get('sticky') and alive and isinstance(alive[-1], Exception)
        and expect == 'full'):
      # the very exception object that escaped from the previous failing build
      # is raised again, by another node (sticky-error caches do this)
      exc = alive[-1]
      bump(probes, 'sticky_exception_reraised')
    state = {'hit': 0}

    def on_invoke(r, u=u, exc=exc, state=state):
      if log_uid(r) == u and state['hit'] == 0:
        state['hit'] = 1
        if case.get('unconfig_before_raise'):
          # the failing callable first runs a sanctioned nested build
          # (auto_unconfig), which succeeds or fails-and-is-handled
          try:
            _unconfig_probe(case['unconfig_before_raise'] == 'fails')
          except _ProbeError:
            pass
          bump(probes, 'raise_after_auto_unconfig')
        raise exc
    del rec.log[:]
    rec.on_invoke = on_invoke
    stubmod.Hostile.mode = fmt
    fired0 = stubmod.Hostile.fired
    escaped = None
    try:
      fdl.build(root)
    except BaseException as e:  # pylint: disable=broad-except
      escaped = e
    finally:
      rec.on_invoke = None
      stubmod.Hostile.mode = None
    alive.append(escaped)
    fmt_fired = stubmod.Hostile.fired > fired0
    if fmt_fired:
      bump(faults, 'format_raises')
    bump(faults, 'callable_raises')
    res['steps'] += len(rec.log)
    log = list(rec.log)
    tag = dict(shape=shape, fmt=fmt if fmt_fired else None)
    if fmt_fired and fmt == 'base':
      expect_eff = 'format-base'
    else:
      expect_eff = expect
    tag['expect'] = expect_eff
    if escaped is None:
      viols.append(V('C05', 'failure-swallowed',
                     f'callable uid {u} raised {shape} but build returned', **tag))
      counts = collections.Counter(log_uid(r) for r in log)
      twice = sorted(str(k) for k, c in counts.items()
                     if c > len(nodes_by_uid.get(k, [None])))
      if twice:
        viols.append(V('C02', 'invoked-more-than-once',
                       f'fdl.build returned after invoking uid(s) {twice[:3]} more '
                       f'often than there are Buildable instances (the callable of '
                       f'uid {u} raised {shape} the first time)'))
      if len(log) < len(cfg_nodes):
        viols.append(V('C02', 'incomplete-build-returned',
                       f'fdl.build returned normally although only {len(log)} of '
                       f'{len(cfg_nodes)} Buildable instances were invoked (the '
                       f'callable of uid {u} raised {shape})'))
      return res
    # 1. class
    if not isinstance(escaped, type(exc)):
      viols.append(V('C05', 'wrong-class',
                     f'uid {u}: raised {type(exc).__name__}, escaped '
                     f'{type(escaped).__name__}: {C.norm_text(str(escaped))[:200]}', **tag))
      continue
    # 2. message prefix
    try:
      s_esc, s_org = str(escaped), str(exc)
    except Exception as e2:  # pylint: disable=broad-except
      viols.append(V('C05', 'str-raises', f'uid {u}: str(escaped) raised {e2!r}', **tag))
      continue
    if not s_esc.startswith(s_org):
      viols.append(V('C05', 'message-prefix',
                     f'uid {u}: message {s_esc[:120]!r} does not start with '
                     f'the original {s_org[:120]!r}', **tag))
      continue
    # 3. path
    # any <root>... path named in the part of the message that was added;
    # the wording around it is not pinned down
    cands = _PATH_RE.findall(s_esc[len(s_org):])
    if not cands:
      viols.append(V('C05', 'no-path',
                     f'uid {u}: {shape} (fmt={tag["fmt"]}) escaped without a '
                     'Fiddle context / path', **tag))
    else:
      bump(probes, 'path_checked')
      ok, seen_targets = False, []
      for pth in cands:
        try:
          target = eval('root' + pth, {'root': root})  # pylint: disable=eval-used
        except Exception as e3:  # pylint: disable=broad-except
          target = e3
        seen_targets.append((pth, target))
        if (isinstance(target, fdl.Config) and cfg_uid(target) == u):
          ok = True
          break
      if not ok:
        pth, target = seen_targets[0]
        viols.append(V('C05', 'wrong-path',
                       f'uid {u}: path <root>{pth} leads to '
                       f'{C.norm_text(repr(target))[:160]}', **tag))
        continue
    # 4. nothing after the failing invocation; prefix obeys the trace rules
    if not log or log_uid(log[-1]) != u:
      viols.append(V('C05', 'invoked-after-failure',
                     f'uid {u}: invocation log after the failure ends with '
                     f'{[log_uid(r) for r in log[-3:]]}', **tag))
      continue
    errs = []
    check_trace_prefix(log, nodes_by_uid, dep_uids, errs)
    if errs:
      viols.append(V('C05', 'prefix-trace', f'uid {u}: ' + '; '.join(errs[:3]), **tag))
      continue
    # 5. configuration unmodified
    after = C.canon(root)
    if after != before:
      viols.append(V('C05', 'config-modified',
                     f'uid {u}: ' + '; '.join(C.diff(before, after)), **tag))
      continue
    # 6. the next build in this thread works normally
    del rec.log[:]
    try:
      out = fdl.build(root)
      got = C.canon(out)
      if got != exp_canon or len(rec.log) != len(cfg_nodes):
        viols.append(V('C05', 'next-build-wrong',
                       f'uid {u}: build after the failure differs: '
                       + '; '.join(C.diff(exp_canon, got))
                       + f' invocations={len(rec.log)}', **tag))
        continue
    except Exception as e4:  # pylint: disable=broad-except
      viols.append(V('C05', 'next-build-raised',
                     f'uid {u}: build after the failure raised '
                     f'{type(e4).__name__}: {C.norm_text(str(e4))[:200]}', **tag))
      continue
    res['steps'] += len(rec.log)

  # ---- C05 clause 7: nested build ----------------------------------------
  if case.get('nested'):
    u = targets[len(targets) // 2] if targets else None
    kind = case.get('nested_kind') or {}
    outcomes = []
    sites = []

    def attempt(r):
      what = kind.get('arg', 'config')
      arg = {'config': lambda: fdl.Config(dict, a=1),
             'partial': lambda: fdl.Partial(dict, a=1),
             'list': lambda: [fdl.Config(dict, a=1)],
             'dict': lambda: {'k': fdl.Config(dict, a=1)},
             'number': lambda: 7, 'none': lambda: None, 'string': lambda: 'abc',
             'built': lambda: r,                 # the object just built
             'given': lambda: (list(r.args.values()) or [0])[0],
             }[what]()
      try:
        fdl.build(arg)
        outcomes.append('accepted')
      except Exception as e:  # pylint: disable=broad-except
        outcomes.append(type(e).__name__)

    def nested(r, u=u):
      first = log_uid(r) == u and not sites
      later = bool(sites) and kind.get('later') and len(sites) < 3
      if not (first or later):
        return
      sites.append(log_uid(r))
      if first and kind.get('prelude'):
        # the sanctioned nested build (auto_unconfig), succeeding or failing
        # with the failure swallowed, BEFORE the plain attempts
        try:
          got = _unconfig_probe(kind['prelude'] == 'unconfig_fails')
          if got != 'probe-ok':
            outcomes.append('auto_unconfig returned ' + repr(got))
        except _ProbeError:
          pass
        bump(probes, 'nested_after_' + kind['prelude'])
      for _ in range(2):
        attempt(r)
    del rec.log[:]
    rec.on_invoke = nested
    try:
      out = fdl.build(root)
      err = None
    except Exception as e:  # pylint: disable=broad-except
      out, err = None, e
    finally:
      rec.on_invoke = None
    bump(faults, 'nested_build')
    bump(probes, 'nested_arg_' + kind.get('arg', 'config'))
    tag = dict(shape='nested', fmt=None, expect='full')
    if 'accepted' in outcomes or len(outcomes) != 2 * len(sites) or not sites:
      viols.append(V('C05', 'nested-build-accepted',
                     f'fdl.build({kind.get("arg", "config")}) from inside callable(s) uid '
                     f'{sites} (prelude {kind.get("prelude")}): {outcomes}', **tag))
    elif err is not None:
      viols.append(V('C05', 'outer-build-broken-by-nested',
                     f'outer build raised {type(err).__name__}: '
                     + C.norm_text(str(err))[:200], **tag))
    elif C.canon(out) != exp_canon:
      viols.append(V('C05', 'outer-build-wrong-after-nested',
                     '; '.join(C.diff(exp_canon, C.canon(out))), **tag))
    else:
      try:
        fdl.build(root)
      except Exception as e:  # pylint: disable=broad-except
        viols.append(V('C05', 'next-build-raised',
                       f'after nested attempt: {type(e).__name__}', **tag))
  res['nontrivial'] = len(nodes) >= 2
  return res


class _ProbeError(Exception):
  pass


def _probe_leaf(broken):
  if broken:
    raise _ProbeError('probe is broken')
  return 'probe-ok'


_UNCONFIG = []


def _unconfig_probe(broken):
  """auto_unconfig: the sanctioned way to build from inside a build."""
  if not _UNCONFIG:
    from fiddle.experimental import auto_config

    @auto_config.auto_unconfig
    def make_probe(broken):
      return fdl.Config(_probe_leaf, broken)
    _UNCONFIG.append(make_probe)
  return _UNCONFIG[0](broken)


def _all_values(root):
  seen, out = set(), []

  def go(v):
    if id(v) in seen:
      return
    seen.add(id(v))
    out.append(v)
    for c in children_of(v):
      go(c)
  go(root)
  return out


def _depth(v, memo=None):
  memo = {} if memo is None else memo
  if id(v) in memo:
    return memo[id(v)]
  memo[id(v)] = 0
  d = 1 + max([_depth(c, memo) for c in children_of(v)] or [0]) if isinstance(
      v, M.MNode) else max([_depth(c, memo) for c in children_of(v)] or [0])
  memo[id(v)] = d
  return d


# --------------------------------------------------------------------------
# shrinking
# --------------------------------------------------------------------------
def _used_ids(x, acc):
  if isinstance(x, dict):
    if 'share' in x:
      acc.add(x['share'])
    for v in x.values():
      _used_ids(v, acc)
  elif isinstance(x, list):
    for v in x:
      _used_ids(v, acc)
  return acc


def _replace_share(x, sid, token):
  if isinstance(x, dict):
    if x.get('share') == sid and len(x) == 1:
      return token
    return {k: _replace_share(v, sid, token) for k, v in x.items()}
  if isinstance(x, list):
    return [_replace_share(v, sid, token) for v in x]
  return x


def shrink_candidates(case):
  defs = case['defs']
  # pin the failing node
  # drop a definition, replacing references to it by a token
  for i in range(len(defs) - 1, -1, -1):
    sid = defs[i].get('id')
    if case['root'] == {'share': sid}:
      continue
    c = copy.deepcopy(case)
    del c['defs'][i]
    c['defs'] = _replace_share(c['defs'], sid, 4242)
    c['root'] = _replace_share(c['root'], sid, 4242)
    if c.get('edits'):
      c['edits'] = [dict(e, v=_replace_share(e['v'], sid, 4242))
                    for e in c['edits'] if e['n'] != sid]
    if isinstance(c['root'], dict):
      yield c
  # drop edits made between builds
  for i in range(len(case.get('edits') or [])):
    c = copy.deepcopy(case)
    del c['edits'][i]
    yield c
  for flag in ('mutating', 'sticky', 'refused', 'late'):
    if case.get(flag):
      c = copy.deepcopy(case)
      c[flag] = False
      yield c
  # root := a single node
  for d in reversed(defs):
    if 'node' in d and case['root'] != {'share': d['id']}:
      c = copy.deepcopy(case)
      c['root'] = {'share': d['id']}
      yield c
  # drop arguments
  for i, d in enumerate(defs):
    if 'node' not in d:
      continue
    for k in list(d['node']['kwargs']):
      if k == 'uid':
        continue
      c = copy.deepcopy(case)
      del c['defs'][i]['node']['kwargs'][k]
      yield c
    if len(d['node']['args']) > 1:
      c = copy.deepcopy(case)
      c['defs'][i]['node']['args'].pop()
      yield c
  if case.get('nested'):
    c = copy.deepcopy(case)
    c['nested'] = False
    yield c
  if case.get('fmt'):
    c = copy.deepcopy(case)
    c['fmt'] = None
    yield c
  if case['shape'] != 'ValueError':
    c = copy.deepcopy(case)
    c['shape'] = 'ValueError'
    yield c


class Machine:
  name = 'build'
  properties = ('C05', 'C02')

  def gen(self, world, tier, prop):
    return gen_case(world, tier, prop)

  def run(self, case):
    try:
      return run(case)
    except KeyError:
      if case.get('_shrunk'):
        return {'violations': [], 'discarded': 'dangling'}
      raise
    finally:
      stubs.CURRENT.on_invoke = None
      stubmod.Hostile.mode = None

  def shrink_candidates(self, case):
    for c in shrink_candidates(case):
      c['_shrunk'] = True
      yield c

  def size(self, case):
    return len(case['defs'])

  def sample(self, case, res):
    return {'n_defs': len(case['defs']), 'root': case['root'],
            'defs_head': case['defs'][:4], 'shape': case['shape'],
            'fmt': case['fmt'], 'nested': case['nested']}


MACHINE = Machine()
