"""History machine (C16): 1-3 simulated threads edit their own configurations;
after every operation the argument history is checked against what was really
stored (snapshots of the implementation's own __arguments__ / tag sets).

Clauses: change-without-entry, last-entry-not-current, last-tags-not-current,
entry-while-suspended, not-exactly-one-entry (single-key direct edits),
sequence-not-increasing / sequence-duplicate, location-in-fiddle,
history-influences-eq / history-influences-build.

Fault kinds: preempt, rejected_op (invalid edits are generated on purpose; the
invariant must hold whatever a refused or half-refused operation left behind).
"""
from __future__ import annotations

import copy
import os

import fiddle as fdl
from fiddle import history as fdl_history

from fsim import canon as C
from fsim import prog
from fsim import sched as sched_lib
from fsim import shrink as S
from fsim import stubs
from fsim.world import World, stable_hash
from machines.build import BUILD_STUBS
from machines import threads as T

FIDDLE_DIR = os.path.dirname(os.path.abspath(fdl.__file__)) + os.sep
STUBS = BUILD_STUBS
NAMES = dict(T.NAMES, n0b=['x', 'y', 'w'])
ABSENT = object()
LINE_RANGES = prog.op_line_ranges()
DIRECT = ('new', 'setattr', 'delattr', 'setitem', 'delitem', 'assign',
          'copy_with', 'update_callable', 'materialize')
TAG_NAMES = ['T0', 'T1', 'U0']


# --------------------------------------------------------------------------
# generation
# --------------------------------------------------------------------------
def gen_thread(rng, t, max_ops):
  base = (t + 1) * 1000
  counter = [0]
  tok = [base * 10]
  fn_of = []
  tv_ids = []

  def token():
    tok[0] += 1
    return tok[0]

  def uid():
    counter[0] += 1
    return base + counter[0]

  def child(depth=0):
    r = rng.random()
    if r < 0.6 or depth >= 1:
      return token()
    if r < 0.75:
      return {'list': [child(depth + 1) for _ in range(rng.randint(0, 2))]}
    if r < 0.85:
      if tv_ids and rng.random() < 0.3:
        return {'share': rng.choice(tv_ids)}   # the SAME TaggedValue object again
      tid_ = base * 100 + len(tv_ids) + 1
      tv_ids.append(tid_)
      return {'tv': {'tags': [rng.choice(TAG_NAMES)],
                     **({'value': token()} if rng.random() < 0.7 else {})},
              'id': tid_}
    return {'node': {'btype': 'Config', 'fn': 'n0', 'args': [],
                     'kwargs': {'uid': uid(), 'x': child(depth + 1)}}}

  def new_op():
    fn = rng.choice(['n0', 'n0', 'n1', 'n1', 'N2', 'N3', 'n4', 'n5', 'n6'])
    u = uid()
    if fn == 'n1':
      args = [u] + ([child()] if rng.random() < 0.7 else [])
      kwargs = {}
      if len(args) == 2 and rng.random() < 0.6:
        args += [child() for _ in range(rng.randint(1, 3))]
      elif rng.random() < 0.5:
        kwargs['y'] = child()
      if rng.random() < 0.3:
        kwargs['extra'] = child()
    elif fn == 'n4':
      args = [u] + [child() for _ in range(rng.randint(0, 3))]
      kwargs = {}
    else:
      args, kwargs = [], {'uid': u}
      for nm in NAMES[fn]:
        if rng.random() < 0.5:
          kwargs[nm] = child()
    fn_of.append(fn)
    return {'op': 'new', 'fn': fn, 'btype': 'Config', 'args': args,
            'kwargs': kwargs}

  def key(fn):
    r = rng.random()
    if r < 0.35:
      return rng.randint(-2, 4)
    if r < 0.5:
      return 'VA'
    bounds = [None, 'VA', 0, 1, 2, 3, -1, -2]
    return {'slice': [rng.choice(bounds), rng.choice(bounds),
                      rng.choice([None, None, None, 1, -1, 2])]}

  ops = [new_op()]
  n = rng.randint(2, max_ops)
  depth = 0
  while len(ops) < n:
    r = rng.random()
    c = rng.randrange(len(fn_of))
    fn = fn_of[c]
    names = NAMES[fn] + (['extra', 'free2'] if fn == 'n1' else [])
    any_name = rng.choice(names + ['zz_unknown']) if names else 'x'
    if r < 0.06:
      ops.append(new_op())
    elif r < 0.24:
      ops.append({'op': 'setattr', 'c': c, 'name': any_name, 'v': child()})
    elif r < 0.32:
      ops.append({'op': 'delattr', 'c': c, 'name': any_name})
    elif r < 0.44:
      k = key(fn)
      if isinstance(k, dict):
        ops.append({'op': 'setitem', 'c': c, 'key': k,
                    'vs': [child() for _ in range(rng.randint(0, 3))]})
      else:
        ops.append({'op': 'setitem', 'c': c, 'key': k, 'v': child()})
    elif r < 0.52:
      ops.append({'op': 'delitem', 'c': c, 'key': key(fn)})
    elif r < 0.62:
      arg = rng.choice(names) if (names and rng.random() < 0.7) else rng.randint(0, 3)
      kind = rng.choice(['add_tag', 'add_tag', 'remove_tag', 'set_tags', 'clear_tags'])
      op = {'op': kind, 'c': c, 'arg': arg}
      if kind in ('add_tag', 'remove_tag'):
        op['tag'] = rng.choice(TAG_NAMES)
      if kind == 'set_tags':
        op['tags'] = rng.sample(TAG_NAMES, rng.randint(0, 2))
      ops.append(op)
    elif r < 0.72:
      if depth < 2 and rng.random() < 0.6:
        ops.append({'op': 'suspend_enter'})
        depth += 1
        if depth == 1 and rng.random() < 0.35:
          # a nested block that is entered and left at once, then the outer one
          # is left too: whatever follows is tracked again
          ops += [{'op': 'suspend_enter'}, {'op': 'suspend_exit'}, {'op': 'suspend_exit'}]
          depth = 0
      else:
        ops.append({'op': 'suspend_exit'})
        depth = max(0, depth - 1)
    elif r < 0.78:
      ops.append({'op': rng.choice(['deepcopy', 'copy', 'pickle']), 'c': c})
      fn_of.append(fn)
    elif r < 0.84:
      kw = {nm: child() for nm in rng.sample(names, min(len(names), rng.randint(1, 2)))} if names else {}
      if rng.random() < 0.25:
        kw['zz_unknown'] = child()   # refused after the valid ones were applied
      kind = rng.choice(['assign', 'copy_with'])
      ops.append({'op': kind, 'c': c, 'kwargs': kw})
      if kind == 'copy_with' and 'zz_unknown' not in kw:
        fn_of.append(fn)   # (a refused copy_with adds no configuration)
    elif r < 0.89:
      new_fn = 'n0b' if fn == 'n0' else ('n0' if fn == 'n0b' else rng.choice(['n0', 'n0b', 'N2']))
      ops.append({'op': 'update_callable', 'c': c, 'fn': new_fn,
                  'drop': rng.random() < 0.6})
      fn_of[c] = new_fn if fn in ('n0', 'n0b') else fn
    elif r < 0.94:
      # materialize_defaults raises on positional-only defaults (a C20 matter)
      if fn not in ('n1', 'N3'):  # N3: default_factory sentinel gets materialized (C20 matter)
        ops.append({'op': 'materialize', 'c': c})
      else:
        ops.append({'op': 'history', 'c': c})
    else:
      ops.append({'op': 'build', 'c': c})
  return ops


def gen_case(world, tier, prop):
  rng = world.stream('gen')
  sw = world.stream('swarm')
  nthreads = sw.choice([1, 2, 2, 3])
  max_ops = 14 if tier == 'thorough' else 10
  threads = [gen_thread(rng, t, max_ops) for t in range(nthreads)]
  r = sw.random()
  if r < 0.4:
    policy = {'kind': 'random', 'p': sw.choice([0.02, 0.1, 0.3])}
  elif r < 0.6:
    policy = {'kind': 'hot', 'p': sw.choice([0.003, 0.01, 0.03]),
              'p_hot': sw.choice([0.05, 0.15, 0.4]),
              'hold': sw.choice([0, 300, 3000]), 'novel': sw.choice([0, 1, 3])}
  else:
    policy = {'kind': 'pct', 'd': sw.randint(1, 3), 'horizon': sw.choice([300, 1500, 5000])}
  return {'threads': threads, 'policy': policy, 'sched_seed': world.seed}


# --------------------------------------------------------------------------
# snapshots and per-op checks
# --------------------------------------------------------------------------
def snap(cfg):
  args = dict(cfg.__arguments__)
  args['__fn_or_cls__'] = cfg.__fn_or_cls__
  tags = {k: frozenset(v) for k, v in cfg.__argument_tags__.items() if v}
  hist = {k: list(v) for k, v in cfg.__argument_history__.items()}
  return args, tags, hist


def same_value(entry_value, current):
  if entry_value is current:
    return True
  try:
    return C.canon(entry_value, with_tags=False) == C.canon(current, with_tags=False)
  except RecursionError:
    return False


def V(clause, msg, **extra):
  fp = {'property': 'C16', 'clause': clause}
  fp.update(extra)
  return {'fp': fp, 'msg': msg}


class Checker:
  """Per-thread oracle state."""

  def __init__(self, env):
    self.env = env
    self.stale_val = {}   # id(cfg) -> set(keys) edited under suspension
    self.stale_tag = {}
    self.snaps = {}       # id(cfg) -> snapshot
    self.viols = []
    self.probes = {}

  def bump(self, k, n=1):
    self.probes[k] = self.probes.get(k, 0) + n

  def before(self):
    self.snaps = {id(c): snap(c) for c in self.env.cfgs}
    self.n_before = len(self.env.cfgs)

  def check_final(self, cfg, tid, label, src_snap=None):
    """Invariant (1) on a whole config (a new one, or a fresh copy).

    For a copy the entries still hold the objects that were stored in the
    SOURCE (HistoryEntry is shared by deepcopy), and those may have been
    mutated in place since; so a key whose last entry is the source's last
    entry (same sequence id) is fine by induction.
    """
    args, tags, hist = snap(cfg)
    src_last = {}
    if src_snap is not None:
      for k, lst in src_snap[2].items():
        vals = [e for e in lst if e.kind.name == 'NEW_VALUE']
        if vals:
          src_last[k] = vals[-1].sequence_id
    sv = self.stale_val.setdefault(id(cfg), set())
    st = self.stale_tag.setdefault(id(cfg), set())
    for k in set(args) | set(hist):
      if k in sv:
        continue
      vals = [e for e in hist.get(k, []) if e.kind.name == 'NEW_VALUE']
      cur = args.get(k, ABSENT)
      if not vals:
        if cur is not ABSENT:
          self.viols.append(V('last-entry-not-current',
                              f'thread {tid} {label}: {k!r} is set but has no '
                              'value entry in its history', op=label))
          return False
        continue
      last = vals[-1].new_value
      if isinstance(last, type(fdl_history.DELETED)) and last is not fdl_history.DELETED:
        self.viols.append(V('last-entry-not-current',
                            f'thread {tid} {label}: history of {k!r} ends with a '
                            'look-alike of the deletion marker, not history.DELETED',
                            op=label))
        return False
      if src_last.get(k) == vals[-1].sequence_id:
        continue
      if cur is ABSENT:
        ok = last is fdl_history.DELETED     # the marker itself, also after a pickle round trip
      else:
        ok = (not isinstance(last, type(fdl_history.DELETED))) and same_value(last, cur)
      if not ok:
        self.viols.append(V('last-entry-not-current',
                            f'thread {tid} {label}: history of {k!r} ends with '
                            f'{C.norm_text(repr(last))[:80]} but the stored value is '
                            f'{"<unset>" if cur is ABSENT else C.norm_text(repr(cur))[:80]}',
                            op=label))
        return False
    src_tags = src_snap[1] if src_snap is not None else None
    for k in set(tags) | set(hist):
      if k in st:
        continue
      tv = [e for e in hist.get(k, []) if e.kind.name == 'UPDATE_TAGS']
      cur = tags.get(k, frozenset())
      if src_tags is not None and src_tags.get(k, frozenset()) == cur:
        src_tv = [e for e in src_snap[2].get(k, []) if e.kind.name == 'UPDATE_TAGS']
        if [e.sequence_id for e in src_tv[-1:]] == [e.sequence_id for e in tv[-1:]]:
          continue   # same tags, same last tag entry as the source: by induction
      if not tv:
        if cur:
          self.viols.append(V('last-tags-not-current',
                              f'thread {tid} {label}: {k!r} has tags {set(cur)} '
                              'but no tag entry', op=label))
          return False
        continue
      if tv[-1].new_value != cur:
        self.viols.append(V('last-tags-not-current',
                            f'thread {tid} {label}: last tag entry of {k!r} is '
                            f'{set(tv[-1].new_value)} but the tag set is {set(cur)}',
                            op=label))
        return False
    return True

  def after(self, op, tid, idx, suspended, raised):
    env = self.env
    label = op['op']
    ok = True
    for ci, cfg in enumerate(env.cfgs):
      if id(cfg) not in self.snaps:
        # a config created by this op
        # the source is addressed relative to the configs that existed BEFORE
        src = (env.cfgs[op.get('c', 0) % self.n_before]
               if label != 'new' and ci >= self.n_before and self.n_before else None)
        if src is not None and id(src) in self.stale_val:
          self.stale_val[id(cfg)] = set(self.stale_val[id(src)])
          self.stale_tag[id(cfg)] = set(self.stale_tag.get(id(src), ()))
        if suspended and label in ('new', 'copy_with'):
          a, t, h = snap(cfg)
          if label == 'new':
            if any(h.values()):
              self.viols.append(V('entry-while-suspended',
                                  f'thread {tid} op #{idx} {label}: constructor '
                                  'recorded history under suspend_tracking', op=label))
              return
            self.stale_val[id(cfg)] = set(a)
            self.stale_tag[id(cfg)] = set(t) | set(a)
          else:
            self.stale_val.setdefault(id(cfg), set()).update(op.get('kwargs', {}))
          continue
        src_snap = self.snaps.get(id(src)) if src is not None else None
        if not self.check_final(cfg, tid, f'op #{idx} {label} (new config)',
                                src_snap):
          return
        if label in DIRECT:
          # entries inherited from the source were judged when they were made
          inherited = src_snap[2] if src_snap is not None else {}
          if not self.check_locations(cfg, inherited, tid, idx, label):
            return
        continue
      b_args, b_tags, b_hist = self.snaps[id(cfg)]
      a_args, a_tags, a_hist = snap(cfg)
      new_entries = {}
      for k, lst in a_hist.items():
        old = b_hist.get(k, [])
        if lst[:len(old)] != old:
          self.viols.append(V('history-rewritten',
                              f'thread {tid} op #{idx} {label}: existing entries '
                              f'of {k!r} were altered', op=label))
          return
        if len(lst) > len(old):
          new_entries[k] = lst[len(old):]
      if suspended:
        if new_entries:
          self.viols.append(V('entry-while-suspended',
                              f'thread {tid} op #{idx} {op}: {sum(map(len, new_entries.values()))} '
                              'entr(y/ies) added while tracking is suspended', op=label))
          return
        sv = self.stale_val.setdefault(id(cfg), set())
        st = self.stale_tag.setdefault(id(cfg), set())
        for k in set(b_args) | set(a_args):
          if b_args.get(k, ABSENT) is not a_args.get(k, ABSENT):
            sv.add(k)
            self.bump('edit_under_suspension')
        for k in set(b_tags) | set(a_tags):
          if b_tags.get(k, frozenset()) != a_tags.get(k, frozenset()):
            st.add(k)
        continue
      sv = self.stale_val.setdefault(id(cfg), set())
      st = self.stale_tag.setdefault(id(cfg), set())
      n_val = n_tag = 0
      if raised and (label in ('setattr', 'delattr', 'delitem', 'add_tag', 'remove_tag',
                                'clear_tags') or (label == 'setitem' and 'v' in op)):
        # a refused single-key operation assigned nothing: it logs nothing
        # (multi-key operations may have applied, and logged, a valid prefix)
        for k, es in new_entries.items():
          if (b_args.get(k, ABSENT) is a_args.get(k, ABSENT)
              and b_tags.get(k, frozenset()) == a_tags.get(k, frozenset())):
            self.viols.append(V('entry-by-refused-op',
                                f'thread {tid} op #{idx} {op}: the operation was '
                                f'refused and changed nothing about {k!r}, yet '
                                f'{len(es)} history entr(y/ies) were appended',
                                op=label))
            return
      for k in set(b_args) | set(a_args) | set(new_entries):
        changed = b_args.get(k, ABSENT) is not a_args.get(k, ABSENT)
        vals = [e for e in new_entries.get(k, []) if e.kind.name == 'NEW_VALUE']
        n_val += len(vals)
        if changed and not vals:
          self.viols.append(V('change-without-entry',
                              f'thread {tid} op #{idx} {op}: stored value of {k!r} '
                              'changed but no history entry was appended', op=label))
          return
        if vals:
          sv.discard(k)
          self.bump('value_entries')
          last, cur = vals[-1].new_value, a_args.get(k, ABSENT)
          if cur is ABSENT:
            good = last is fdl_history.DELETED
          else:
            good = (not isinstance(last, type(fdl_history.DELETED))
                    and same_value(last, cur))
          if not good:
            self.viols.append(V(
                'last-entry-not-current',
                f'thread {tid} op #{idx} {op}: history of {k!r} now ends with '
                f'{C.norm_text(repr(last))[:80]} but the stored value is '
                f'{"<unset>" if cur is ABSENT else C.norm_text(repr(cur))[:80]}',
                op=label))
            return
      for k in set(b_tags) | set(a_tags) | set(new_entries):
        changed = b_tags.get(k, frozenset()) != a_tags.get(k, frozenset())
        tv = [e for e in new_entries.get(k, []) if e.kind.name == 'UPDATE_TAGS']
        n_tag += len(tv)
        if changed and not tv:
          self.viols.append(V('change-without-entry',
                              f'thread {tid} op #{idx} {op}: tag set of {k!r} '
                              'changed but no tag entry was appended', op=label))
          return
        if tv:
          st.discard(k)
          self.bump('tag_entries')
          if tv[-1].new_value != a_tags.get(k, frozenset()):
            self.viols.append(V(
                'last-tags-not-current',
                f'thread {tid} op #{idx} {op}: last tag entry of {k!r} is '
                f'{set(tv[-1].new_value)} but the tag set is '
                f'{set(a_tags.get(k, frozenset()))}', op=label))
            return
      if not raised and self.n_before and cfg is env.cfgs[op.get('c', 0) % self.n_before]:
        plain = not (isinstance(op.get('v'), dict)
                     and ('tv' in op['v'] or 'share' in op['v']))
        if label in ('setattr', 'delattr') or (
            label == 'setitem' and 'v' in op):
          if plain and (n_val, n_tag) != (1, 0):
            self.viols.append(V('not-exactly-one-entry',
                                f'thread {tid} op #{idx} {op}: appended {n_val} '
                                f'value / {n_tag} tag entries', op=label))
            return
        if label in ('add_tag', 'remove_tag', 'clear_tags'):
          if (n_val, n_tag) != (0, 1):
            self.viols.append(V('not-exactly-one-entry',
                                f'thread {tid} op #{idx} {op}: appended {n_val} '
                                f'value / {n_tag} tag entries', op=label))
            return
      if new_entries and len(a_args) != len(b_args) and label in ('setitem', 'delitem'):
        self.bump('varargs_shift_with_history')
      # (configs that existed before this op are checked incrementally: an
      # entry holds the object stored at that time, and a nested value may
      # legitimately be mutated in place afterwards)
      if label in DIRECT and new_entries:
        if not self.check_locations(cfg, b_hist, tid, idx, label):
          return

  def check_locations(self, cfg, b_hist, tid, idx, label):
    for k, lst in cfg.__argument_history__.items():
      for e in lst[len(b_hist.get(k, [])):]:
        fn = e.location.filename
        rng_ = LINE_RANGES.get(label)
        if (fn == prog.OPSITE_FILE and rng_ is not None
            and not rng_[0] <= e.location.line_number <= rng_[1]):
          self.viols.append(V('location-wrong-call-site',
                              f'thread {tid} op #{idx} {label}: entry for {k!r} '
                              f'is attributed to line {e.location.line_number} of '
                              f'{os.path.basename(fn)} ({e.location.function_name}), '
                              f'but this operation was issued from lines '
                              f'{rng_[0]}-{rng_[1]}', op=label))
          return False
        if fn.startswith(FIDDLE_DIR):
          self.viols.append(V('location-in-fiddle',
                              f'thread {tid} op #{idx} {label}: entry for {k!r} '
                              f'is attributed to {fn[len(FIDDLE_DIR):]}:'
                              f'{e.location.line_number}', op=label))
          return False
        self.bump('locations_checked')
    return True


def thread_body(env, ops, chk, tid):
  def body():
    try:
      for idx, op in enumerate(ops):
        if chk.viols:
          break
        chk.before()
        suspended = bool(env.suspend)
        prog.step(env, op)
        out = env.obs[-1]['out']
        raised = isinstance(out, dict) and 'exc' in out
        if raised:
          chk.bump('rejected_or_failed_op')
        if op['op'] in ('suspend_enter', 'suspend_exit'):
          continue
        chk.after(op, tid, idx, suspended, raised)
    finally:
      prog.finish(env)
  return body


def run(case):
  res = {'violations': [], 'faults': {}, 'probes': {}, 'steps': 0,
         'state_hashes': [], 'nontrivial': False}
  stubs.reset()
  fns = stubs.install(STUBS)
  n = len(case['threads'])
  rng = World(case['sched_seed']).stream('sched')
  policy = sched_lib.make_policy(case['policy'], rng, n)
  sc = sched_lib.Sched(policy, [T.FIDDLE_SRC], step_cap=case.get('step_cap', 2_000_000))
  stubs.CURRENT.thread_id = sc.thread_id
  envs = [prog.Env(t, fns, sched=sc) for t in range(n)]
  chks = [Checker(e) for e in envs]
  try:
    sc.run([thread_body(envs[t], case['threads'][t], chks[t], t) for t in range(n)])
  except sched_lib.SimDeadlock as e:
    res['steps'] = sc.steps
    res['turns'] = sc.turns
    res['sched_hash'] = sc.sched_hash()
    res['faults'] = {'preempt': sc.switches}
    res['violations'].append(V('deadlock', f'threads on disjoint configurations deadlocked: {e}'))
    return res
  res['steps'] = sc.steps
  res['sched_hash'] = res['digest'] = sc.sched_hash()
  res['turns'] = sc.turns
  res['faults'] = {'preempt': sc.switches}
  viols = res['violations']
  for t, chk in enumerate(chks):
    viols += chk.viols
    for k, v in chk.probes.items():
      if k == 'rejected_or_failed_op':
        res['faults']['rejected_op'] = res['faults'].get('rejected_op', 0) + v
      else:
        res['probes'][k] = res['probes'].get(k, 0) + v
    env = envs[t]
    prev = -1
    for i, batch in enumerate(env.seq_batches):
      if len(set(batch)) != len(batch):
        viols.append(V('sequence-duplicate', f'thread {t} op #{i}: {batch}'))
        break
      if batch and batch[0] <= prev:
        viols.append(V('sequence-not-increasing',
                       f'thread {t} op #{i}: sequence id {batch[0]} after {prev}'))
        break
      if batch:
        prev = batch[-1]
    for cfg in env.cfgs:
      for k, lst in cfg.__argument_history__.items():
        ids = [e.sequence_id for e in lst]
        if ids != sorted(ids) or len(set(ids)) != len(ids):
          viols.append(V('sequence-not-increasing',
                         f'thread {t}: history list of {k!r} has ids {ids}'))
          break
  allseq = [e.sequence_id for env in envs for e in env.keep_entries]
  if len(allseq) != len(set(allseq)):
    dup = sorted(s for s in set(allseq) if allseq.count(s) > 1)[:3]
    viols.append(V('sequence-duplicate',
                   f'sequence ids used twice across threads/configs: {dup}'))
  # ---- history never influences equality or building --------------------
  if not viols:
    for t in range(n):
      env2 = prog.Env(t, fns)
      with fdl_history.suspend_tracking():
        for op in case['threads'][t]:
          if op['op'] in ('suspend_enter', 'suspend_exit'):
            continue
          prog.step(env2, op)
      a, b = envs[t].cfgs, env2.cfgs
      if len(a) != len(b):
        continue  # an op failed differently; not this clause's business
      for i, (x, y) in enumerate(zip(a, b)):
        cx = C.canon(x)
        if cx != C.canon(y):
          break  # programs diverged (e.g. op outcome depends on history?) -> compare no further
        if 'n5_I' in C.short(cx, 10 ** 9):
          # deepcopy / pickle duplicate a callable *instance*; == then rightly
          # sees two different callables although the canon prints one name
          continue
        res['probes']['eq_pairs'] = res['probes'].get('eq_pairs', 0) + 1
        try:
          eq = (x == y)
        except Exception as e:  # pylint: disable=broad-except
          eq = e
        if eq is not True:
          viols.append(V('history-influences-eq',
                         f'thread {t} config #{i}: same edits with and without '
                         f'tracking compare {eq!r}'))
          break
        try:
          bx = C.canon(fdl.build(x))
        except Exception as e:  # pylint: disable=broad-except
          bx = C.canon_exc(e)
        try:
          by = C.canon(fdl.build(y))
        except Exception as e:  # pylint: disable=broad-except
          by = C.canon_exc(e)
        if bx != by:
          viols.append(V('history-influences-build',
                         f'thread {t} config #{i}: ' + '; '.join(C.diff(bx, by))))
          break
  res['nontrivial'] = sum(len(t) for t in case['threads']) >= 3
  res['case_hash'] = stable_hash([case['threads'], res['sched_hash']])
  res['state_hashes'] = [stable_hash(e.obs[-1]) for e in envs if e.obs]
  return res


def shrink_candidates(case):
  for c in T.shrink_candidates(dict(case, behav={})):
    c.pop('behav', None)
    yield c


class Machine:
  name = 'history'
  properties = ('C16',)

  def gen(self, world, tier, prop):
    return gen_case(world, tier, prop)

  def run(self, case):
    try:
      return run(case)
    finally:
      fdl_history.set_tracking(True)

  def pin(self, case, res):
    c = copy.deepcopy(case)
    c['policy'] = {'kind': 'script', 'turns': res['turns']}
    return c

  def shrink_candidates(self, case):
    return shrink_candidates(case)

  def size(self, case):
    return sum(len(t) for t in case['threads'])

  def sample(self, case, res):
    return {'threads': [t[:6] for t in case['threads']],
            'n_ops': [len(t) for t in case['threads']],
            'policy': case['policy']['kind'], 'steps': res.get('steps'),
            'switches': res['faults'].get('preempt')}


MACHINE = Machine()
