"""Flags machine (C18): one FiddleFlag object whose directive queue is consumed
lazily; a history of parse([...]) / read .value / config_str round trips.

Model: the base function called directly, `exec("cfg" + accessor + " = " +
literal)` for set:, a plain call for fiddler: - Python itself is the
independent path grammar.  `set:` paths are taken from as_dict_flattened /
as_str_flattened of the model's CURRENT config, so printer grammar, parser
grammar and daglish path strings must agree along the whole history.

Fault kind: rejected_op (malformed / misplaced directive must raise).
"""
from __future__ import annotations

import copy
import json

from absl import flags as absl_flags

import fiddle as fdl
from fiddle import printing
from fiddle._src.absl_flags import flags as fdl_flags

from fsim import canon as C
from fsim import shrink as S
from fsim import stubmod
from fsim import stubs
from fsim.world import stable_hash
from machines.build import BUILD_STUBS

NAMES = {'n0': ['x', 'y'], 'n1': ['y', 'extra', 'more'], 'N2': ['x', 'k'],
         'N3': ['x', 'y']}   # no annotated stub: tagged values print with their tags
KEYS = ['k', 'key_1', 'a b', 'x.y', 'k-2', 'q[0]', '7', '12', '007', '1e3', 0, 1, 7, 42]


# --------------------------------------------------------------------------
# generation
# --------------------------------------------------------------------------
def gen_literal(rng, depth=0):
  r = rng.random()
  if r < 0.3:
    return rng.randint(-9, 99)
  if r < 0.45:
    return rng.choice(['s', 'true', 'False', 'a=b', "it's", 'x y', '', '1', '[0]', 'None',
                       'a,b', 'f(x)', ')', '(', '"q"', "k='v'", 'a, b=1', 'back\\slash',
                       'tab\tx', 'line\nbreak', '#', ':', 'set:z=1', '{', ']'])
  if r < 0.55:
    return rng.choice([True, False, None, 1.5, -0.25, 1e-3, 10 ** 20, -7, 2.5e10])
  if depth >= 2:
    return rng.randint(0, 9)
  if r < 0.75:
    return [gen_literal(rng, depth + 1) for _ in range(rng.randint(0, 3))]
  if r < 0.85:
    return {rng.choice(['a', 'b', 'c d']): gen_literal(rng, depth + 1)
            for _ in range(rng.randint(0, 2))}
  return tuple(gen_literal(rng, depth + 1) for _ in range(rng.randint(0, 2)))


def gen_spec(rng, depth=0, root=False):
  uid = rng.randint(1, 999)
  fn = 'n0' if root else rng.choice(list(NAMES))

  def child(d):
    r = rng.random()
    if r < 0.35 or d >= 3:
      return ['leaf', gen_literal(rng)]
    if r < 0.60:
      return gen_spec(rng, d + 1)
    if r < 0.75:
      return ['list', [child(d + 1) for _ in range(rng.randint(0, 3))]]
    if r < 0.90:
      ks = rng.sample(KEYS, rng.randint(1, 3))
      return ['dict', [[k, child(d + 1)] for k in ks]]
    return ['tuple', [child(d + 1) for _ in range(rng.randint(1, 2))]]

  if fn == 'n1':
    args = [['leaf', uid]] + ([child(depth)] if rng.random() < 0.7 else [])
    kwargs = {}
    if len(args) == 2 and rng.random() < 0.5:
      args += [child(depth) for _ in range(rng.randint(1, 2))]
    else:
      for nm in NAMES['n1']:
        if rng.random() < 0.4:
          kwargs[nm] = child(depth)
  else:
    args, kwargs = [], {'uid': ['leaf', uid]}
    for nm in NAMES[fn]:
      if rng.random() < 0.6:
        kwargs[nm] = child(depth)
  kind = 'cfg' if root or rng.random() < 0.85 else 'partial'
  return [kind, fn, args, kwargs]


def gen_case(world, tier, prop):
  rng = world.stream('gen')
  a = gen_one(world, tier, rng)
  if rng.random() < 0.3:
    # a second flag object in the same process, its steps interleaved
    b = gen_one(world, tier, rng, faults=False)
    steps, ia, ib = [], 0, 0
    sa, sb = a['steps'], [dict(s, f=1) for s in b['steps']]
    while ia < len(sa) or ib < len(sb):
      if ib >= len(sb) or (ia < len(sa) and rng.random() < 0.5):
        steps.append(sa[ia]); ia += 1
      else:
        steps.append(sb[ib]); ib += 1
    return {'steps': steps}
  return a


def gen_one(world, tier, rng, faults=True):
  frng = world.stream('fault')
  spec = gen_spec(rng, root=True)
  steps = []
  first = f'config:base_gen({spec!r}, z={rng.randint(0, 5)})'
  pending = [first]
  n = rng.randint(3, 12 if tier == 'thorough' else 9)
  for i in range(n):
    r = rng.random()
    if r < 0.07:
      lit_ = rng.choice([[gen_literal(rng, 2), gen_literal(rng, 2)],
                         {'a': gen_literal(rng, 2), 'b': gen_literal(rng, 2)},
                         [gen_literal(rng, 2)]])
      if rng.random() < 0.6:
        pending.append({'set': rng.randrange(10 ** 6), 'lit': repr(gen_literal(rng, 2)), 'src': 1,
                        'via': rng.choice(['dict', 'str']), 'under_prev': 1})
      pending.append({'set': rng.randrange(10 ** 6), 'lit': repr(lit_), 'src': 1,
                      'via': rng.choice(['dict', 'str']), 'container': 1,
                      'pre_lit': repr(gen_literal(rng, 2)) if rng.random() < 0.7 else None})
      if rng.random() < 0.8:
        pending.append({'set': rng.randrange(10 ** 6), 'lit': repr(gen_literal(rng, 2)), 'src': 1,
                        'via': rng.choice(['dict', 'str']), 'under_prev': 1})
        if rng.random() < 0.6:
          lit2 = rng.choice([[gen_literal(rng, 2), gen_literal(rng, 2), gen_literal(rng, 2)],
                             {'a': gen_literal(rng, 2), 'c': gen_literal(rng, 2)}])
          pending.append({'set': rng.randrange(10 ** 6), 'lit': repr(lit2), 'src': 1,
                          'via': rng.choice(['dict', 'str']), 'container': 1, 'again': 1})
          pending.append({'set': rng.randrange(10 ** 6), 'lit': repr(gen_literal(rng, 2)), 'src': 1,
                          'via': rng.choice(['dict', 'str']), 'under_prev': 1})
    elif r < 0.35:
      pending.append({'set': rng.randrange(10 ** 6), 'lit': repr(gen_literal(rng)), 'src': 1,
                      'via': rng.choice(['dict', 'str'])})
    elif r < 0.55 and rng.random() < 0.3 and any(
        isinstance(p, str) and p.startswith('fiddler:') for p in pending + [d for st_ in steps for d in st_.get('ds', [])]):
      # the byte-identical directive once more (anything cached by its text
      # must not carry state from the first application)
      prev = [p for p in pending + [d for st_ in steps for d in st_.get('ds', [])]
              if isinstance(p, str) and p.startswith('fiddler:')]
      pending.append(rng.choice(prev))
    elif r < 0.55:
      f = rng.choice(['fid_scale', 'fid_scale', 'fid_replace', 'fid_push', 'fid_record'])
      if f == 'fid_record':
        # a call expression with several literal arguments, positional and keyword
        parts = [repr(gen_literal(rng)) for _ in range(rng.randint(0, 3))]
        if rng.random() < 0.2:
          parts.append(rng.choice(["b'by,te'", "(1, 'a,b')", "{'k': (1,)}", "-1e-3", "'''tq'''"]))
        parts += [f'{k}={gen_literal(rng)!r}'
                  for k in rng.sample(['k', 'j', 'name'], rng.randint(0, 2))]
        sep = rng.choice([', ', ',', ' , '])
        arg = '(' + sep.join(parts) + ')'
      elif f == 'fid_scale':
        arg = rng.choice(['', '(3)', '(k=5)', '(k=-1)'])
      else:
        arg = f'({gen_literal(rng)!r})'
      pending.append(f'fiddler:{f}{arg}')
    elif r < 0.58:
      # the module's `fid_scale` attribute is rebound (same name, other code):
      # directives parsed from here on mean the new function
      if pending:
        steps.append({'op': 'parse', 'ds': pending})
        pending = []
      steps.append({'op': 'rebind'})
    elif r < 0.75:
      if pending:
        steps.append({'op': 'parse', 'ds': pending})
        pending = []
      steps.append({'op': 'read'})
    elif r < 0.85:
      if pending:
        steps.append({'op': 'parse', 'ds': pending})
        pending = []
      steps.append({'op': 'roundtrip'})
    else:
      if (pending and rng.random() < 0.25
          and not any(isinstance(p_, str) and p_.startswith('config:') for p_ in pending[:3])):
        # the batch is handed to parse() with a non-string entry at its end: the
        # whole batch is refused (and handed over again, corrected, later)
        steps.append({'op': 'parse', 'ds': pending[:rng.randint(1, 3)], 'bad_batch': True})
      elif pending:
        steps.append({'op': 'parse', 'ds': pending[:rng.randint(1, 3)]})
        pending = pending[len(steps[-1]['ds']):]
  if pending:
    steps.append({'op': 'parse', 'ds': pending})
  steps.append({'op': 'read'})
  if not faults:
    return {'steps': steps}
  if frng.random() < 0.25:
    bad = frng.choice([
        'bogus:thing', 'set:no.such.path.here=1', 'set:z=not_a_literal',
        f'config:base_gen({spec!r})', 'config:base_gen(1 +', 'fiddler:no_such_fiddler',
        'set:z', 'fiddler:fid_scale(*[1])', 'set:__MISSING_DICT_PATH__',
        'set:__MISSING_DICT_PATH__'])
    pos = frng.randrange(len(steps))
    steps.insert(pos + 1, {'op': 'parse', 'ds': [bad], 'bad': True})
    if frng.random() < 0.5:
      steps.insert(pos + 2, {'op': 'read'})
    # (else the failing directive waits in one batch with whatever is parsed
    # next); either way the flag is read again after the failure was reported
    steps.append({'op': 'read'})
  elif frng.random() < 0.1:
    # misplaced: an override before any base config
    steps.insert(0, {'op': 'parse', 'ds': ['set:z=1'], 'bad': True})
    steps.insert(1, {'op': 'read'})
  return {'steps': steps}


# --------------------------------------------------------------------------
# path helpers (plain Python as the resolver)
# --------------------------------------------------------------------------
def accessor(path: str) -> str:
  return path if path.startswith('[') else '.' + path


def has_buildable(v):
  if isinstance(v, fdl.Buildable):
    return True
  if isinstance(v, (list, tuple)):
    return any(has_buildable(e) for e in v)
  if isinstance(v, dict):
    return any(has_buildable(e) for e in v.values())
  return False


def count_leaves(v, in_tuple=False):
  """Independent leaf enumeration: (n_leaves, n_leaves_not_under_a_tuple)."""
  if isinstance(v, fdl.Buildable):
    tot = [0, 0]
    for x in v.__arguments__.values():
      a, b = count_leaves(x, in_tuple)
      tot[0] += a
      tot[1] += b
    return tuple(tot)
  if not has_buildable(v):
    return (1, 0 if in_tuple else 1)
  tot = [0, 0]
  items = v.values() if isinstance(v, dict) else v
  for x in items:
    a, b = count_leaves(x, in_tuple or isinstance(v, tuple))
    tot[0] += a
    tot[1] += b
  return tuple(tot)


_TOKEN = None


def split_path(acc):
  """Accessor -> list of accessor tokens ('.name', "['key']", '[3]')."""
  import re
  global _TOKEN
  if _TOKEN is None:
    _TOKEN = re.compile(r"\.\w+|\['[^']*'\]|\[\d+\]")
  out, pos = [], 0
  while pos < len(acc):
    m = _TOKEN.match(acc, pos)
    if not m:
      return None
    out.append(m.group(0))
    pos = m.end()
  return out


def expected_lines(b):
  """Lines as_str_flattened owes a Buildable: one per non-variadic parameter
  that is unset or holds a leaf, plus leaf *args elements and leaf **kwargs."""
  from fsim.stubs import SigView
  sv = SigView(b.__fn_or_cls__)
  args = b.__arguments__
  n = 0
  names = set()
  for i, p in enumerate(sv.prefix):
    key = i if p.name in sv.po else p.name
    names.add(key)
    if key not in args or not has_buildable(args[key]):
      n += 1
  for name in sv.ko:
    names.add(name)
    if name not in args or not has_buildable(args[name]):
      n += 1
  for k, v in args.items():
    if k not in names and not has_buildable(v):
      n += 1
  return n


def under_tuple(cfg, path):
  """True if evaluating the path passes through a tuple (plain Python)."""
  toks = split_path(accessor(path))
  if toks is None:
    return True   # not a path this harness can follow: do not target it
  cur = cfg
  for t in toks[:-1]:
    cur = eval('cur' + t, {'cur': cur})  # pylint: disable=eval-used
    if isinstance(cur, tuple):
      return True
  return isinstance(cur, tuple)


def new_flag():
  return fdl_flags.FiddleFlag(
      name='cfg', default_module=stubmod, default=None,
      parser=absl_flags.ArgumentParser(), serializer=None, help_string='x')


def V(clause, msg, **extra):
  fp = {'property': 'C18', 'clause': clause}
  fp.update(extra)
  return {'fp': fp, 'msg': msg}


def check_print_fault(cfg, probes, faults):
  """A leaf's __repr__ raises while the configuration is being printed: the
  printer may fail (loudly), but the configuration must be what it was, and
  printing it afterwards must work as usual."""
  import copy as _copy
  c2 = _copy.deepcopy(cfg)
  nodes = [v for v, _ in fdl.daglish.iterate(c2) if isinstance(v, fdl.Buildable)]
  # a hostile leaf in the root and in the last nested Buildable that takes `x`
  c2.z = stubmod.Hostile()
  for node in reversed(nodes):
    if node is not c2 and 'x' in node.__signature_info__.parameters and not isinstance(
        getattr(node, 'x', None), fdl.Buildable):
      try:
        node.x = [stubmod.Hostile()]
      except Exception:  # pylint: disable=broad-except
        continue
      break
  before = C.canon(c2)
  stubmod.Hostile.mode = 'exc'
  fired0 = stubmod.Hostile.fired
  try:
    try:
      printing.as_str_flattened(c2)
    except Exception:  # pylint: disable=broad-except
      pass
    try:
      str(printing.as_dict_flattened(c2))
    except Exception:  # pylint: disable=broad-except
      pass
    try:
      repr(c2)
    except Exception:  # pylint: disable=broad-except
      pass
  finally:
    stubmod.Hostile.mode = None
  if stubmod.Hostile.fired > fired0:
    faults['format_raises'] = faults.get('format_raises', 0) + 1
  after = C.canon(c2)
  if after != before:
    return V('failed-print-modified-config',
             'a __repr__ that raised while printing left the configuration changed: '
             + '; '.join(C.diff(before, after)))
  d = printing.as_dict_flattened(c2)
  n_leaves, _ = count_leaves(c2)
  if len(d) != n_leaves:
    return V('printed-leaves-count',
             f'after a failed print as_dict_flattened lists {len(d)} paths, the '
             f'configuration has {n_leaves} leaves')
  return None


def check_printers(cfg, probes):
  """Printed paths: unique, complete, and each resolves to its leaf."""
  # read-only tag queries first (they may leave an empty tag entry behind, which
  # must not change what is printed)
  for node, _ in fdl.daglish.iterate(cfg):
    if isinstance(node, fdl.Buildable):
      for name in list(node.__arguments__)[:2]:
        try:
          fdl.get_tags(node, name)
        except Exception:  # pylint: disable=broad-except
          pass
  d = printing.as_dict_flattened(cfg)
  n_leaves, _ = count_leaves(cfg)
  if len(d) != n_leaves:
    return V('printed-leaves-count',
             f'as_dict_flattened lists {len(d)} paths but the configuration has '
             f'{n_leaves} leaves (a path is missing or two leaves share one)')
  for path, value in d.items():
    try:
      got = eval('cfg' + accessor(path), {'cfg': cfg})  # pylint: disable=eval-used
    except Exception as e:  # pylint: disable=broad-except
      return V('printed-path-does-not-resolve',
               f'as_dict_flattened path {path!r}: {type(e).__name__}: {e}')
    if got is not value and got != value:
      return V('printed-path-wrong-leaf',
               f'as_dict_flattened path {path!r} resolves to {got!r}, listed {value!r}')
  probes['dict_paths_checked'] = probes.get('dict_paths_checked', 0) + len(d)
  text = printing.as_str_flattened(cfg, include_types=False, raw_value_repr=True)
  seen = set()
  n_set = 0
  for line in text.split('\n') if text else []:
    if ' = ' not in line:
      return V('printed-line-malformed', f'as_str_flattened line {line!r}')
    path, rep = line.split(' = ', 1)
    if path in seen:
      return V('printed-path-duplicate', f'as_str_flattened lists {path!r} twice')
    seen.add(path)
    if rep.startswith('<[unset'):
      continue
    n_set += 1
    try:
      got = eval('cfg' + accessor(path), {'cfg': cfg})  # pylint: disable=eval-used
    except Exception as e:  # pylint: disable=broad-except
      return V('printed-path-does-not-resolve',
               f'as_str_flattened path {path!r}: {type(e).__name__}: {e}')
    if repr(got) != rep:
      return V('printed-path-wrong-leaf',
               f'as_str_flattened path {path!r} = {rep} but resolves to {got!r}')
  if n_set != n_leaves:
    return V('printed-leaves-count',
             f'as_str_flattened lists {n_set} set leaves, configuration has {n_leaves}')
  # one line per parameter of every printed Buildable: set, or marked unset
  by_parent = {}
  for line in text.split('\n') if text else []:
    path = line.split(' = ', 1)[0]
    toks = split_path(accessor(path))
    if not toks:
      continue
    by_parent.setdefault(''.join(toks[:-1]), []).append(toks[-1])
  for pacc, lasts in by_parent.items():
    try:
      parent = eval('cfg' + pacc, {'cfg': cfg})  # pylint: disable=eval-used
    except Exception:  # pylint: disable=broad-except
      continue
    if not isinstance(parent, fdl.Buildable):
      continue
    want = expected_lines(parent)
    if len(lasts) != want:
      return V('printed-lines-per-buildable',
               f'as_str_flattened prints {len(lasts)} lines directly under '
               f'cfg{pacc} ({sorted(lasts)}), but that Buildable has {want} '
               'parameters / arguments that are leaves or unset')
  probes['str_paths_checked'] = probes.get('str_paths_checked', 0) + n_set
  return None


def pick_set_path(cfg, d, via):
  """Candidate override paths from a printer, tuples excluded."""
  if via == 'dict':
    paths = list(printing.as_dict_flattened(cfg))
  else:
    text = printing.as_str_flattened(cfg, include_types=False, raw_value_repr=True)
    paths = [l.split(' = ', 1)[0] for l in text.split('\n')
             if ' = ' in l and not l.split(' = ', 1)[1].startswith('<[unset')]
  paths = [p for p in paths if not under_tuple(cfg, p)]
  # z belongs to the fiddlers; uid stays put so the canon keeps node identity
  return paths


def run(case):
  stubs.reset()
  stubs.install(BUILD_STUBS)
  res = {'violations': [], 'faults': {}, 'probes': {}, 'steps': 0,
         'state_hashes': [], 'nontrivial': False}
  probes, faults, viols = res['probes'], res['faults'], res['violations']

  def bump(d, k, n=1):
    d[k] = d.get(k, 0) + n

  class FS:   # one flag object and its model
    def __init__(self):
      self.flag = new_flag()
      self.model = None   # the model config (a real fiddle object, edited by exec)
      self.queue = []     # directives parsed into the flag but not yet applied
  fss = {}
  serializer = fdl_flags.FiddleFlagSerializer()
  applied = 0
  if any(st.get('f') for st in case['steps']):
    probes['two_flags'] = 1
  for idx, st in enumerate(case['steps']):
    res['steps'] += 1
    if st['op'] == 'rebind':
      # everything parsed so far is applied under the old binding first (lazy
      # evaluation must not make an earlier directive mean the new function)
      if any(isinstance(q, tuple) for fs_ in fss.values() for q in fs_.queue):
        continue   # a failing directive is pending: no clean point to rebind at
      ok = True
      for fs_ in fss.values():
        if fs_.queue:
          try:
            fs_.flag.value  # pylint: disable=pointless-statement
          except Exception:  # pylint: disable=broad-except
            ok = False
            break
          applied += len(fs_.queue)
          del fs_.queue[:]
      if not ok:
        res['discarded'] = 'pending-directives-failed-before-rebind'
        return res
      stubmod.rebind_fid_scale()
      bump(probes, 'fiddler_rebound')
      continue
    fs = fss.setdefault(st.get('f', 0), FS())
    flag, model, queue = fs.flag, fs.model, fs.queue
    if st['op'] == 'parse' and st.get('bad_batch'):
      strs = [d for d in st['ds'] if isinstance(d, str)]
      if not strs:
        continue
      try:
        flag.parse(strs + [None])
      except Exception:  # pylint: disable=broad-except
        bump(faults, 'rejected_op')
        bump(probes, 'refused_parse_batches')
        continue      # nothing of the batch counts; the next read shows it
      viols.append(V('invalid-directive-accepted',
                     f'step #{idx}: parse({strs + [None]}) did not raise',
                     directive='non-string'))
      return res
    if st['op'] == 'parse':
      ds = []
      for d in st['ds']:
        if isinstance(d, dict):
          # a set: whose path is taken from the printers at APPLY time; keep
          # the descriptor, materialise when the model reaches it
          ds.append(d)
        else:
          ds.append(d)
      # materialise set: descriptors against the model state they will meet:
      # apply the model eagerly here (the flag is lazy; the result must agree)
      strs = []
      expect_raise = None
      natural_failure = False
      for d in ds:
        if isinstance(d, dict):
          if model is None:
            continue
          paths = pick_set_path(model, d, d['via'])
          if not paths:
            continue
          path = paths[d['set'] % len(paths)]
          if d.get('container'):
            # the override replaces the whole CONTAINER that holds the chosen
            # leaf (element overrides before and after it address its entries)
            cands = [p_ for p_ in paths if p_.endswith(']')]
            if d.get('again') and getattr(fs, 'last_container', None):
              # the same container is replaced once more
              if not any(p_ == fs.last_container or p_.startswith(fs.last_container + '[')
                         for p_ in paths):
                continue
              path = fs.last_container
              leaf_ = None
            elif not cands:
              # no container yet: a plain argument of the root becomes one
              plain = [p_ for p_ in paths if '[' not in p_ and '.' not in p_ and p_ not in ('uid', 'z')]
              if not plain:
                continue
              path, leaf_ = plain[d['set'] % len(plain)], None
            else:
              leaf_ = cands[d['set'] % len(cands)]
              path = leaf_[:leaf_.rindex('[')]
            if under_tuple(model, path) or not path:
              continue
            if d.get('pre_lit') is not None and leaf_ is not None:
              # first an override of one ENTRY of that container ...
              pre = f'set:{leaf_}={d["pre_lit"]}'
              exec('cfg' + accessor(leaf_) + ' = ' + d['pre_lit'], {'cfg': model})  # pylint: disable=exec-used
              strs.append(pre)
            bump(probes, 'set_whole_container')
            fs.last_container = path
          elif d.get('under_prev') and getattr(fs, 'last_container', None):
            # an ENTRY of the container that an earlier override replaced
            # (a container of plain literals is printed as ONE leaf, so its entries
            # are addressed from what the model holds there)
            try:
              obj_ = eval('cfg' + accessor(fs.last_container), {'cfg': model})  # pylint: disable=eval-used
            except Exception:  # pylint: disable=broad-except
              obj_ = None
            if isinstance(obj_, dict) and obj_:
              k_ = sorted(obj_, key=repr)[d['set'] % len(obj_)]
              path = fs.last_container + f'[{k_!r}]'
              bump(probes, 'set_entry_of_replaced_container')
            elif isinstance(obj_, list) and obj_:
              path = fs.last_container + f'[{d["set"] % len(obj_)}]'
              bump(probes, 'set_entry_of_replaced_container')
          lit = d['lit'] if d.get('src') else repr(d['lit'])   # (source text: JSON-stable)
          directive = f'set:{path}={lit}'
          try:
            exec('cfg' + accessor(path) + ' = ' + lit, {'cfg': model})  # pylint: disable=exec-used
          except Exception as e:  # pylint: disable=broad-except
            raise AssertionError(f'oracle cannot apply {directive}: {e}') from e
          bump(probes, 'set_directives')
          if path.count('[') or path.count('.'):
            bump(probes, 'set_on_nested_path')
          strs.append(directive)
        elif st.get('bad'):
          if d == 'set:__MISSING_DICT_PATH__':
            # an override that crosses a MISSING key of an existing dict and is
            # refused only afterwards (unparsable literal)
            d = 'set:z=not_a_literal'
            if model is not None:
              for p_ in printing.as_dict_flattened(model):
                if "['" in p_ and not under_tuple(model, p_[:p_.index("['")]):
                  d = "set:" + p_[:p_.index("['")] + "['zz_missing']['k']=1x"
                  bump(probes, 'refused_override_across_missing_key')
                  break
          expect_raise = d
          strs.append(d)
          break
        elif d.startswith('config:'):
          expr = d[len('config:'):]
          model = eval('stubmod.' + expr, {'stubmod': stubmod})  # pylint: disable=eval-used
          strs.append(d)
        elif d.startswith('fiddler:'):
          if model is None:
            continue
          expr = d[len('fiddler:'):]
          if '(' not in expr:
            expr += '()'
          name, rest = expr.split('(', 1)
          strs.append(d)
          try:
            out = eval(f'stubmod.{name}(cfg, {rest}', {'stubmod': stubmod, 'cfg': model})  # pylint: disable=eval-used
          except Exception:  # pylint: disable=broad-except
            # the fiddler itself fails on this configuration (e.g. z is no
            # longer a number): applying the directive must fail too
            expect_raise = d
            natural_failure = True
            break
          if out is not None:
            model = out
          bump(probes, 'fiddler_directives')
      try:
        flag.parse(strs)
      except Exception as e:  # pylint: disable=broad-except
        if expect_raise is not None:
          bump(faults, 'rejected_op')
          res['nontrivial'] = applied >= 2
          return res
        viols.append(V('parse-raised', f'step #{idx}: parse({strs}) raised '
                       f'{type(e).__name__}: {C.norm_text(str(e))[:300]}'))
        return res
      queue += strs
      if expect_raise is not None:
        queue.append(('BAD', expect_raise))
      fs.model = model
      continue
    # ---- read / roundtrip: the flag now applies everything that is queued --
    bad = [q for q in queue if isinstance(q, tuple)]
    try:
      value = flag.value
      err = None
    except Exception as e:  # pylint: disable=broad-except
      value, err = None, e
    if bad:
      bump(faults, 'rejected_op')
      if err is None:
        viols.append(V('invalid-directive-accepted',
                       f'step #{idx}: directive {bad[0][1]!r} was accepted',
                       directive=bad[0][1].split(':')[0]))
        res['nontrivial'] = applied >= 2
        return res
      # The failing directive was reported.  A later read may fail again, but a
      # value that IS returned reflects every other directive, in order.
      k = queue.index(bad[0])
      applied += k
      del queue[:k + 1]
      fs.failed = True
      bump(probes, 'reads_after_reported_failure_pending')
      continue
    if err is not None and getattr(fs, 'failed', False):
      res['nontrivial'] = applied >= 2
      return res   # failing again after a reported failure: loud, unspecified
    if err is not None:
      viols.append(V('valid-directives-raised',
                     f'step #{idx}: reading .value after {queue} raised '
                     f'{type(err).__name__}: {C.norm_text(str(err))[:300]}'))
      return res
    applied += len(queue)
    del queue[:]
    a, b = C.canon(model), C.canon(value)
    res['state_hashes'].append(stable_hash(a))
    if a != b:
      viols.append(V('value-differs-from-model',
                     f'step #{idx}: flag.value != directives applied in order: '
                     + '; '.join(C.diff(a, b))))
      return res
    bump(probes, 'reads')
    if value is not None:
      v = check_printers(value, probes)
      if v:
        viols.append(v)
        return res
      if idx % 3 == 0:
        v = check_print_fault(value, probes, faults)
        if v:
          viols.append(v)
          return res
    if st['op'] == 'roundtrip' and value is not None:
      ser = serializer.serialize(value)   # ONE serializer for the whole run
      flag2 = new_flag()
      try:
        flag2.parse([ser])
        v2 = flag2.value
      except Exception as e:  # pylint: disable=broad-except
        viols.append(V('config-str-raised',
                       f'step #{idx}: a serialized flag value failed to parse: '
                       f'{type(e).__name__}: {C.norm_text(str(e))[:300]}'))
        return res
      c = C.canon(v2)
      if c != b:
        viols.append(V('config-str-differs',
                       f'step #{idx}: ' + '; '.join(C.diff(b, c))))
        return res
      bump(probes, 'config_str_roundtrips')
      if idx % 2 == 0:
        fs.flag = flag2  # the history continues on the transported object
      # (else: it continues on the original, which will be dumped again later)
  res['nontrivial'] = applied >= 2
  return res


# --------------------------------------------------------------------------
def shrink_candidates(case):
  steps = case['steps']
  for shorter in S.ddmin_candidates(steps[1:]):
    c = copy.deepcopy(case)
    c['steps'] = [copy.deepcopy(steps[0])] + copy.deepcopy(shorter)
    if c['steps'][-1]['op'] != 'read':
      c['steps'].append({'op': 'read'})
    yield c
  for i, st in enumerate(steps):
    if st['op'] == 'parse' and len(st['ds']) > 1:
      for j in range(len(st['ds']) - 1, -1, -1):
        if i == 0 and j == 0:
          continue
        c = copy.deepcopy(case)
        del c['steps'][i]['ds'][j]
        yield c


class Machine:
  name = 'flags'
  properties = ('C18',)

  def gen(self, world, tier, prop):
    return gen_case(world, tier, prop)

  def run(self, case):
    return run(case)

  def shrink_candidates(self, case):
    return shrink_candidates(case)

  def size(self, case):
    return sum(len(s.get('ds', [1])) for s in case['steps'])

  def sample(self, case, res):
    return {'steps': [json.dumps(s)[:300] for s in case['steps'][:6]]}


MACHINE = Machine()
