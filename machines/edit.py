"""Edit machine: one Buildable, a history of reads / edits / builds, checked in
lock-step against the ArgModel (DESIGN Appendix A).  Decides C03 (edits) and
C01 (build == direct call; unformable => raises).

Fault kind: `rejected_op` (an operation the API must refuse).
"""
from __future__ import annotations

import copy

import fiddle as fdl

from fsim import canon as C
from fsim import model as M
from fsim import shrink as S
from fsim import stubs
from fsim.world import stable_hash

VA = 'VA'
NESTED = [
    {'name': 'g0', 'kind': 'func',
     'params': [['x', 'pk', None], ['y', 'pk', 'v']]},
    {'name': 'g1', 'kind': 'cls',
     'params': [['x', 'po', 'v'], ['y', 'pk', 'v'], ['rest', 'va', None]]},
]
FREE_NAMES = ['free1', 'free2']


# --------------------------------------------------------------------------
# key helpers
# --------------------------------------------------------------------------
def real_key(k, side_va):
  """Descriptor -> real key; side_va is fdl.VARARGS (impl) or P (model)."""
  if k == VA:
    return side_va
  if isinstance(k, dict):
    a, b, c = (side_va if e == VA else e for e in k['slice'])
    return slice(a, b, c)
  return k


def key_kind(k):
  if k == VA:
    return 'va'
  if isinstance(k, dict):
    st = k['slice'][2]
    uses_va = VA in k['slice']
    return ('slice' + ('-neg' if (st or 1) < 0 else '')
            + ('-ext' if st not in (None, 1) else '')
            + ('-va' if uses_va else ''))
  return 'neg' if k < 0 else 'int'


# --------------------------------------------------------------------------
# generation
# --------------------------------------------------------------------------
class Gen:

  def __init__(self, rng, tier):
    self.rng = rng
    self.tier = tier
    self.tok = 100
    self.next_id = 0
    self.shareable = []

  def token(self):
    self.tok += 1
    return self.tok

  def value(self, depth=0):
    r = self.rng.random()
    if r < 0.12:
      return {'const': self.rng.randrange(14)}
    if r < 0.135:
      return {'halfcopy': self.rng.randrange(2)}   # cannot be deep-copied / pickled
    if r < 0.6 or depth >= 2:
      return self.token()
    if r < 0.66 and self.shareable:
      return {'share': self.rng.choice(self.shareable)}
    if r < 0.74:
      return 's%d' % self.token()
    self.next_id += 1
    nid = self.next_id
    if r < 0.80:
      d = {'list': [self.value(depth + 1) for _ in range(self.rng.randint(0, 2))]}
    elif r < 0.85:
      d = {'tuple': [self.value(depth + 1) for _ in range(self.rng.randint(1, 2))]}
    elif r < 0.875:
      d = {'dict': [['k%d' % i, self.value(depth + 1)]
                    for i in range(self.rng.randint(1, 2))]}
    elif r < 0.90:
      inner = {'node': {'btype': 'Config', 'fn': 'g0',
                        'args': [self.token()], 'kwargs': {}}}
      d = ({'nt': [inner, self.token()]} if self.rng.random() < 0.5
           else {'ddict': [['k', inner]]})
    elif r < 0.0:
      pass
    else:
      fn = self.rng.choice(['g0', 'g1'])
      args = [self.value(depth + 1) for _ in range(self.rng.randint(0, 2))]
      if fn == 'g1' and self.rng.random() < 0.4:
        args += [self.value(depth + 1)]
      d = {'node': {'btype': 'Config', 'fn': fn, 'args': args, 'kwargs': {}}}
    d['id'] = nid
    if 'tuple' not in d and 'nt' not in d:
      self.shareable.append(nid)
    return d

  EQUAL_CONSTS = ([1, 2, 4], [0, 3, 5], [6, 7], [8, 9, 10])

  def equalish(self, mobj, mk):
    """Descriptor of a value EQUAL to the model value mobj that is another
    object (containers, nested configs) or of another type (1 / True / 1.0):
    what an `unchanged, skip it` shortcut in an edit path confuses with mobj.
    None if there is none."""
    if type(mobj) in (bool, int, float, tuple):
      for grp in self.EQUAL_CONSTS:
        vals = [M.CONST_POOL[i] for i in grp]
        if any(type(v) is type(mobj) and v == mobj for v in vals):
          other = [i for i in grp if type(M.CONST_POOL[i]) is not type(mobj)
                   or M.CONST_POOL[i] is not mobj]
          other = [i for i in other if repr(M.CONST_POOL[i]) != repr(mobj)]
          return {'const': self.rng.choice(other)} if other else None
    def shares(d, acc):
      if isinstance(d, dict):
        if 'share' in d:
          acc.append(d['share'])
        if 'twin' in d:
          acc.append(d['twin'])
        for v in d.values():
          shares(v, acc)
      elif isinstance(d, list):
        for v in d:
          shares(v, acc)
      return acc
    for nid, obj in mk.memo.items():
      # (only values of the LIVE configuration: after a deep copy took its place,
      # earlier descriptors refer to objects of the discarded original)
      if (obj is mobj and nid in mk.descs and nid in self.shareable
          and all(x in self.shareable for x in shares(mk.descs[nid], []))):
        self.next_id += 1
        d = {'twin': nid, 'id': self.next_id}
        self.shareable.append(self.next_id)
        return d
    return None

  def index(self, n):
    r = self.rng.random()
    if r < 0.8 and n > 0:
      return self.rng.randint(-n, n - 1)
    return self.rng.randint(-n - 2, n + 2)

  def key(self, m: M.MNode, want_slice):
    n = m.sv.P + len(m.tail)
    has_va = m.sv.va is not None
    if not want_slice:
      if has_va and self.rng.random() < 0.12:
        return VA
      return self.index(n)

    def bound():
      r = self.rng.random()
      if r < 0.25:
        return None
      if has_va and r < 0.45:
        return VA
      return self.index(n)
    step = self.rng.choice([None, None, None, 1, -1, 2, -2, 3])
    return {'slice': [bound(), bound(), step]}

  def names(self, m):
    sv = m.sv
    pool = list(sv.pk) + list(sv.ko)
    bad = list(sv.po) + ([sv.va] if sv.va else []) + ['zz_unknown']
    free = FREE_NAMES + ([sv.vk] if sv.vk else [])
    return pool, bad, free

  def name(self, m, for_delete=False):
    pool, bad, free = self.names(m)
    r = self.rng.random()
    if for_delete and m.named and r < 0.7:
      return self.rng.choice(list(m.named))
    if r < 0.6 and pool:
      return self.rng.choice(pool)
    if r < 0.8:
      return self.rng.choice(free)
    return self.rng.choice(bad)


def gen_case(world, tier, prop):
  rng = world.stream('gen')
  g = Gen(rng, tier)
  spec = stubs.gen_spec(rng, 'f0')
  btype = 'Config' if (prop == 'C01' or rng.random() < 0.75) else 'Partial'
  fns = stubs.install([spec] + NESTED)
  mk = M.Maker('model', fns)
  sv = mk.sv('f0')
  # constructor call: bind a random subset
  args, kwargs = [], {}
  npos = rng.randint(0, sv.P) if rng.random() < 0.7 else 0
  args = [g.value() for _ in range(npos)]
  if sv.va and npos == sv.P and rng.random() < 0.6:
    args += [g.value() for _ in range(rng.randint(1, 3))]
  for n in list(sv.pk) + list(sv.ko):
    if n in sv.pk and sv.index_of[n] < npos:
      continue
    if rng.random() < 0.4:
      kwargs[n] = g.value()
  if sv.vk and rng.random() < 0.3:
    kwargs['free1'] = g.value()
  if sv.vk and (sv.po or sv.va) and rng.random() < 0.15:
    # legal in Python: a keyword named like a positional-only / *args parameter
    # lands in **kwargs (f(1, a=2) for def f(a, /, **kw))
    cands = [n for n in sv.po if sv.index_of[n] < npos] + (
        [sv.va] if sv.va and npos >= sv.P else [])
    if cands:
      kwargs[rng.choice(cands)] = g.value()
  init = {'btype': btype, 'fn': 'f0', 'args': args, 'kwargs': kwargs}
  m = mk({'node': init})
  early = rng.choice(['deepcopy', 'deepcopy', 'copy', 'pickle']) if rng.random() < 0.15 else None
  if early in ('deepcopy', 'pickle'):
    g.shareable = []   # the constructor's values live on in the discarded original only
  max_ops = 25 if tier == 'thorough' else 14
  nops = rng.randint(1, max_ops)
  ops = []
  for _ in range(nops):
    r = rng.random()
    snapshot = list(g.shareable)
    if r < 0.10:
      op = {'op': 'getattr', 'name': g.name(m)}
    elif r < 0.28:
      nm = g.name(m)
      if nm in m.sv.defaults and isinstance(m.sv.defaults[nm], (str, int, float)) and rng.random() < 0.2:
        v = m.sv.defaults[nm]  # explicitly set to the default
      elif nm in m.named and rng.random() < 0.15:
        v = g.equalish(m.named[nm], mk)
        v = g.value() if v is None else v
      else:
        v = g.value()
      op = {'op': 'setattr', 'name': nm, 'v': v}
    elif r < 0.36:
      op = {'op': 'delattr', 'name': g.name(m, for_delete=True)}
    elif r < 0.42:
      op = {'op': 'getitem', 'key': g.key(m, rng.random() < 0.5)}
    elif r < 0.56:
      key = g.key(m, False)
      v = None
      if isinstance(key, int) and rng.random() < 0.2:
        n_ = m.sv.P + len(m.tail)
        i_ = key + n_ if key < 0 else key
        if 0 <= i_ < m.sv.P:
          d_ = m.sv.prefix[i_].default
          if isinstance(d_, (str, int, float)):
            v = d_   # a positional parameter explicitly set to its default
      if v is None and isinstance(key, int) and rng.random() < 0.2:
        view_ = m.view()
        if -len(view_) <= key < len(view_):
          v = g.equalish(view_[key], mk)
      op = {'op': 'setitem', 'key': key, 'v': g.value() if v is None else v}
    elif r < 0.74:
      key = g.key(m, True)
      n = m.sv.P + len(m.tail)
      rk = real_key(key, m.sv.P)
      ln = len(range(*rk.indices(n)))
      rr = rng.random()
      if rr < 0.55:
        k = ln
      elif rr < 0.8:
        k = rng.randint(0, 3)
      else:
        k = max(0, ln + rng.choice([-1, 1]))
      vs = []
      view_ = m.view()
      idxs_ = list(range(*rk.indices(n)))
      mode_ = rng.random()
      tail_only = bool(m.sv.va) and (min(idxs_) if idxs_ else rk.indices(n)[0]) >= m.sv.P
      for j in range(k):
        e = None
        if tail_only and rng.random() < 0.06:
          vs.append({'novalue': 1})    # the sentinel itself as a *args value
          continue
        if mode_ < 0.2 and j < len(idxs_) and rng.random() < 0.6:
          e = g.equalish(view_[idxs_[j]], mk)    # equal to what the slot holds
        elif mode_ < 0.3 and vs and isinstance(vs[-1], dict) and 'id' in vs[-1]:
          g.next_id += 1                          # equal neighbours
          e = {'twin': vs[-1]['id'], 'id': g.next_id}
          g.shareable.append(g.next_id)
        vs.append(g.value() if e is None else e)
      op = {'op': 'setitem', 'key': key, 'vs': vs}
      if vs and rng.random() < 0.12:
        op['rhs_fails_after'] = rng.randrange(len(vs))   # iterating the RHS raises
    elif r < 0.86:
      op = {'op': 'delitem', 'key': g.key(m, rng.random() < 0.5)}
    elif r < 0.95:
      op = {'op': 'build'} if btype == 'Config' else {'op': 'getitem', 'key': {'slice': [None, None, None]}}
    else:
      # the config is replaced by a copy of itself: nothing observable changes
      op = {'op': 'swap', 'how': rng.choice(['deepcopy', 'deepcopy', 'copy', 'pickle'])}
      if op['how'] != 'copy':
        # values created so far now live on in the discarded original only
        g.shareable = []
        snapshot = []
    if op['op'] in ('setattr', 'delattr', 'setitem', 'delitem') and rng.random() < 0.15:
      op['susp'] = True    # made while history tracking is suspended
    ops.append(op)
    # advance the model so later ops are generated against the right size
    if op.get('rhs_fails_after') is not None:
      g.shareable = snapshot  # the assignment fails with its right-hand side
      continue
    try:
      apply_model(m, op, mk)
    except M.Invalid:
      g.shareable = snapshot  # values of a refused op never come to exist
  case = {'spec': spec, 'init': init, 'ops': ops, 'early_copy': early}
  if btype == 'Config' and rng.random() < 0.15:
    case['mutating_callee'] = True
  if rng.random() < 0.3:
    case['sig_decoy'] = True
  if btype == 'Config' and rng.random() < 0.2:
    case['failing_child'] = {'cls': rng.choice(sorted(NESTED_FAILURES)),
                             'nth': rng.randint(1, 2)}
  return case


# --------------------------------------------------------------------------
# execution
# --------------------------------------------------------------------------
def apply_model(m, op, mk):
  """Applies op to the model; returns the read value (or None)."""
  k = op['op']
  if k == 'getattr':
    return m.getattr(op['name'])
  if k == 'setattr':
    if not m.can_setattr(op['name']):
      raise M.Invalid('bad name')
    m.setattr(op['name'], mk(op['v']))
  elif k == 'delattr':
    m.delattr(op['name'])
  elif k == 'getitem':
    return m.getitem(real_key(op['key'], m.sv.P))
  elif k == 'setitem':
    key = real_key(op['key'], m.sv.P)
    if 'vs' in op:
      if not isinstance(key, slice):
        raise M.Invalid('list to int index is just a value')
      # validity first, so that values are only created for valid ops
      probe = m.clone_shallow()
      probe.setitem(key, [None] * len(op['vs']))
      m.setitem(key, [mk(v) for v in op['vs']])
    else:
      if isinstance(key, slice):
        raise M.Invalid('scalar to slice')
      m._norm_index(key)
      m.setitem(key, mk(op['v']))
  elif k == 'delitem':
    m.delitem(real_key(op['key'], m.sv.P))
  return None


def apply_impl(cfg, op, mk):
  k = op['op']
  if k == 'getattr':
    return getattr(cfg, op['name'])
  if k == 'setattr':
    setattr(cfg, op['name'], mk(op['v']))
  elif k == 'delattr':
    delattr(cfg, op['name'])
  elif k == 'getitem':
    return cfg[real_key(op['key'], fdl.VARARGS)]
  elif k == 'setitem':
    key = real_key(op['key'], fdl.VARARGS)
    if 'vs' in op:
      vals = [mk(v) for v in op['vs']]
      if op.get('rhs_fails_after') is not None:
        from fsim import stubmod
        vals = stubmod.FailingList(vals, op['rhs_fails_after'])
      cfg[key] = vals
    else:
      cfg[key] = mk(op['v'])
  elif k == 'delitem':
    del cfg[real_key(op['key'], fdl.VARARGS)]
  return None


RAISES = 'RAISES'


def _try(f):
  try:
    return f()
  except Exception:  # pylint: disable=broad-except
    return RAISES


def observe_impl(cfg, m: M.MNode):
  """Everything C03 lists as observable, as one structure (not yet canon)."""
  dc = [isinstance(v, M.DontCare) for v in m.view()]
  view = _try(lambda: list(cfg[:]))
  if view is not RAISES:
    view = ['DC' if (i < len(dc) and dc[i]) else v for i, v in enumerate(view)]
  n = len(dc)
  items = []
  for i in range(-n, n):
    j = i + n if i < 0 else i
    items.append('DC' if dc[j] else _try(lambda i=i: cfg[i]))
  oob = [_try(lambda: cfg[n]), _try(lambda: cfg[-n - 1])]
  names = sorted(set(m.sv.pk) | set(m.sv.ko) | set(m.sv.po) | set(FREE_NAMES)
                 | ({m.sv.va} if m.sv.va else set())
                 | ({m.sv.vk} if m.sv.vk else set()) | set(m.named))
  attrs = [[nm, _try(lambda nm=nm: getattr(cfg, nm))] for nm in names]
  oa = []
  for flags in M.ALL_OA_FLAGS:
    r = _try(lambda flags=flags: fdl.ordered_arguments(cfg, **flags))
    oa.append(r if r is RAISES else [[C.key_repr(k), v] for k, v in r.items()])
  d = _try(lambda: set(x for x in dir(cfg) if isinstance(x, str)))
  if d is not RAISES:
    d = sorted(d & (m.dir_must_include() | set(names)))
  return {'view': view, 'items': items, 'oob': oob, 'attrs': attrs, 'oa': oa,
          'dir': d}


def observe_model(m: M.MNode):
  view = ['DC' if isinstance(v, M.DontCare) else v for v in m.view()]
  n = len(view)
  items = [view[i] for i in range(-n, n)]
  oob = [RAISES, RAISES]
  names = sorted(set(m.sv.pk) | set(m.sv.ko) | set(m.sv.po) | set(FREE_NAMES)
                 | ({m.sv.va} if m.sv.va else set())
                 | ({m.sv.vk} if m.sv.vk else set()) | set(m.named))

  def ga(nm):
    try:
      return m.getattr(nm)
    except M.Invalid:
      return RAISES
  attrs = [[nm, ga(nm)] for nm in names]
  oa = []
  for flags in M.ALL_OA_FLAGS:
    try:
      r = m.ordered_arguments(**flags)
      oa.append([[C.key_repr(k), v] for k, v in r.items()])
    except M.Invalid:
      oa.append(RAISES)
  d = sorted(m.dir_must_include() & (m.dir_must_include() | set(names)))
  return {'view': view, 'items': items, 'oob': oob, 'attrs': attrs, 'oa': oa,
          'dir': d}


def mask_dc(mval, ival):
  """Blanks the slots whose reported value the property does not pin down."""
  if isinstance(mval, M.DontCare):
    return 'DC', 'DC'
  if isinstance(mval, list) and isinstance(ival, list) and len(mval) == len(ival):
    pairs = [('DC', 'DC') if isinstance(x, M.DontCare) else (x, y)
             for x, y in zip(mval, ival)]
    return [p[0] for p in pairs], [p[1] for p in pairs]
  return mval, ival


Unformable = M.Unformable
model_build = M.model_build


def shape(m: M.MNode):
  sv = m.sv
  return {'has_va': sv.va is not None, 'has_vk': sv.vk is not None,
          'n_po': len(sv.po), 'n_pk': len(sv.pk)}


def _holds_halfcopy(cfg):
  from fsim import stubmod
  seen = set()

  def go(v):
    if id(v) in seen:
      return False
    seen.add(id(v))
    if isinstance(v, stubmod.HalfCopyable):
      return True
    if isinstance(v, fdl.Buildable):
      hist = [e.new_value for es in v.__argument_history__.values() for e in es]
      return any(go(c) for c in list(v.__arguments__.values()) + hist)
    if isinstance(v, (list, tuple)):
      return any(go(c) for c in v)
    if isinstance(v, dict):
      return any(go(c) for c in v.values())
    return False
  return go(cfg)


def viol(prop, clause, op, msg, m, extra=None):
  fp = {'property': prop, 'clause': clause, 'op': op['op']}
  if 'key' in op:
    fp['key'] = key_kind(op['key'])
  fp['has_va'] = m.sv.va is not None
  if extra:
    fp.update(extra)
  return {'fp': fp, 'msg': msg}


def run(case):
  rec = stubs.reset()
  fns = stubs.install([case['spec']] + NESTED)
  svs = {}
  mk_m = M.Maker('model', fns, svs)
  mk_i = M.Maker('impl', fns, svs)
  res = {'violations': [], 'faults': {}, 'probes': {}, 'steps': 0,
         'state_hashes': [], 'nontrivial': False}
  faults, probes = res['faults'], res['probes']

  def bump(d, k):
    d[k] = d.get(k, 0) + 1

  rec.mutate_args = bool(case.get('mutating_callee'))
  if case.get('sig_decoy'):
    # process history: ANOTHER callable whose signature compares equal (defaults
    # equal across types, keyword-only parameters in another order) was
    # configured first
    tw = stubs.twin_spec(case['spec'], 'f0d')
    if tw is not None:
      twin = stubs.install([tw])['f0d']
      try:
        d_ = fdl.Config(twin)
        fdl.ordered_arguments(d_, include_defaults=True)
        del d_
      except Exception:  # pylint: disable=broad-except
        pass
      probes['equal_signature_decoy_first'] = 1
  init = {'node': case['init']}
  try:
    m = mk_m(init)
  except M.Invalid:
    res['discarded'] = 'ctor-invalid'
    return res
  try:
    cfg = mk_i(init)
  except Exception as e:  # pylint: disable=broad-except
    msg = (f'Python binds {case["init"]["args"]} / {sorted(case["init"]["kwargs"])} to the '
           f'signature, but the constructor raised {type(e).__name__}: '
           + C.norm_text(str(e))[:200])
    res['violations'].append(viol('C03', 'valid-op-raised', {'op': 'construct'}, msg, m))
    res['violations'].append(viol('C01', 'constructor-binding', {'op': 'construct'}, msg, m))
    return res
  if case.get('early_copy') and case['spec']['kind'] not in ('inst', 'uinst', 'part'):
    # a copy taken before ANYTHING has looked at the fresh config (lazily
    # computed bookkeeping must survive being copied in its initial state)
    import copy as _copy
    import pickle as _pickle
    try:
      cfg = {'deepcopy': _copy.deepcopy, 'copy': _copy.copy,
             'pickle': lambda c: _pickle.loads(_pickle.dumps(c))}[case['early_copy']](cfg)
    except Exception as e:  # pylint: disable=broad-except
      if not (case['early_copy'] != 'copy' and _holds_halfcopy(cfg)):
        msg = f'{case["early_copy"]} of a fresh config raised {type(e).__name__}: {e}'
        res['violations'].append(viol('C03', 'valid-op-raised', {'op': 'construct'}, msg, m))
        res['violations'].append(viol('C01', 'copy-reports-differently', {'op': 'construct'}, msg, m))
        return res
      # (a value that cannot be duplicated: loud refusal, go on with the original)
      probes['uncopyable_refused'] = probes.get('uncopyable_refused', 0) + 1
    else:
      probes['copied_before_first_use'] = 1
  om, oi = C.canon(observe_model(m)), C.canon(observe_impl(cfg, m))
  if om != oi:
    msg = 'after construction: ' + '; '.join(C.diff(om, oi))
    res['violations'].append(viol('C03', 'state-mismatch', {'op': 'construct'}, msg, m))
    # binding the constructor arguments into storage is equally C01's ground
    res['violations'].append(viol('C01', 'constructor-binding', {'op': 'construct'}, msg, m))
    return res
  changing = 0
  for idx, op in enumerate(case['ops']):
    res['steps'] += 1
    kind = op['op']
    if kind == 'build':
      v = check_build(cfg, m, op, probes)
      if v:
        res['violations'].append(v)
        return res
      if case.get('failing_child'):
        v = check_build_with_failing_child(cfg, m, op, probes, case['failing_child'])
        if v:
          res['violations'].append(v)
          return res
      if rec.mutate_args:
        # the callables modified the containers they were GIVEN; what the config
        # reports as configured changes through the constructor and edits only
        probes['build_with_mutating_callee'] = probes.get('build_with_mutating_callee', 0) + 1
        oi2 = C.canon(observe_impl(cfg, m))
        if oi2 != oi:
          res['violations'].append(viol(
              'C01', 'build-changed-configured-arguments', op,
              f'op #{idx}: building changed what the config reports: '
              + '; '.join(C.diff(oi, oi2)), m))
          return res
      continue
    if kind == 'swap':
      import copy as _copy
      import pickle as _pickle
      if case['spec']['kind'] in ('inst', 'uinst', 'part') and op['how'] != 'copy':
        continue   # deep copies duplicate callable instances / partial objects
      try:
        cfg = {'deepcopy': _copy.deepcopy, 'copy': _copy.copy,
               'pickle': lambda c: _pickle.loads(_pickle.dumps(c))}[op['how']](cfg)
      except Exception as e:  # pylint: disable=broad-except
        if op['how'] != 'copy' and _holds_halfcopy(cfg):
          # a value that cannot be duplicated: the refusal is loud and fine, but
          # the configuration it was asked of must be what it was
          probes['uncopyable_refused'] = probes.get('uncopyable_refused', 0) + 1
          oi2 = C.canon(observe_impl(cfg, m))
          if oi2 != oi:
            res['violations'].append(viol(
                'C03', 'rejected-op-changed-state', op,
                f'op #{idx}: a refused {op["how"]} ({type(e).__name__}) changed what '
                'the ORIGINAL reports: ' + '; '.join(C.diff(oi, oi2)), m))
            return res
          continue
        res['violations'].append(viol('C03', 'valid-op-raised', op,
                                      f'op #{idx} {op["how"]} of the config raised '
                                      f'{type(e).__name__}: {e}', m))
        return res
      probes['swapped_for_copy'] = probes.get('swapped_for_copy', 0) + 1
      oi2 = C.canon(observe_impl(cfg, m))
      if oi2 != oi:
        msg = (f'op #{idx}: a {op["how"]} of the config reports different arguments: '
               + '; '.join(C.diff(oi, oi2)))
        res['violations'].append(viol('C03', 'state-mismatch', op, msg, m))
        res['violations'].append(viol('C01', 'copy-reports-differently', op, msg, m))
        return res
      continue
    before_i = oi
    # model first (decides validity)
    m_before = m.clone_shallow()
    try:
      mval = apply_model(m, op, mk_m)
      valid = True
    except M.Invalid as e:
      valid = False
      why = str(e)
      m = m_before
    try:
      if op.get('susp'):
        from fiddle._src import history as _history
        with _history.suspend_tracking():
          ival = apply_impl(cfg, op, mk_i)
        probes['edit_while_tracking_suspended'] = probes.get('edit_while_tracking_suspended', 0) + 1
      else:
        ival = apply_impl(cfg, op, mk_i)
      raised = None
    except Exception as e:  # pylint: disable=broad-except
      raised = e
    oi = C.canon(observe_impl(cfg, m))
    if not valid:
      bump(faults, 'rejected_op')
      if raised is None:
        res['violations'].append(viol(
            'C03', 'invalid-op-accepted', op,
            f'op #{idx} {op} is invalid ({why}) but did not raise', m))
        return res
      if oi != before_i:
        res['violations'].append(viol(
            'C03', 'rejected-op-changed-state', op,
            f'op #{idx} {op} raised {type(raised).__name__} but changed the '
            'reported arguments: ' + '; '.join(C.diff(before_i, oi)), m))
        if case['init']['btype'] == 'Config':
          # C01's side of it: f is called with what the ACCEPTED edits configured
          v = check_build(cfg, m, {'op': 'build', 'after': op['op']}, probes)
          if v:
            res['violations'].append(v)
        return res
      continue
    if raised is not None and op.get('rhs_fails_after') is not None and valid:
      # user code failed while the right-hand side was being read: the
      # assignment may fail with it, but then nothing may have been written
      bump(faults, 'rhs_iteration_raises')
      m = m_before
      oi = C.canon(observe_impl(cfg, m))   # (observed against the model as it was)
      if oi != before_i:
        res['violations'].append(viol(
            'C03', 'rejected-op-changed-state', op,
            f'op #{idx} {op}: the right-hand side raised {type(raised).__name__} '
            'part-way and the assignment left the reported arguments changed: '
            + '; '.join(C.diff(before_i, oi)), m))
        if case['init']['btype'] == 'Config':
          v = check_build(cfg, m, {'op': 'build', 'after': op['op']}, probes)
          if v:
            res['violations'].append(v)
        return res
      continue
    if raised is not None:
      res['violations'].append(viol(
          'C03', 'valid-op-raised', op,
          f'op #{idx} {op} is valid but raised '
          f'{type(raised).__name__}: {C.norm_text(str(raised))[:200]}', m))
      return res
    if kind in ('getattr', 'getitem'):
      mval, ival = mask_dc(mval, ival)
      a, b = C.canon(mval), C.canon(ival)
      if a != b:
        res['violations'].append(viol(
            'C03', 'read-mismatch', op,
            f'op #{idx} {op}: ' + '; '.join(C.diff(a, b)), m))
        return res
    else:
      changing += 1
    om = C.canon(observe_model(m))
    if om != oi:
      res['violations'].append(viol(
          'C03', 'state-mismatch', op,
          f'after op #{idx} {op} (model != fiddle): '
          + '; '.join(C.diff(om, oi)), m))
      if case['init']['btype'] == 'Config':
        # C01's side of it: is f still called with what the edits configured?
        v = check_build(cfg, m, {'op': 'build', 'after': op['op']}, probes)
        if v:
          res['violations'].append(v)
      return res
    if kind in ('setitem', 'delitem') and m.tail != m_before.tail:
      bump(probes, 'tail_changed')
      if len(m.tail) != len(m_before.tail) and any(
          a is not b for a, b in zip(m.tail, m_before.tail)):
        bump(probes, 'tail_compaction_shifted')
    res['state_hashes'].append(stable_hash(C.canon([m.view(), m.named])))
  res['nontrivial'] = changing >= 3 or faults.get('rejected_op', 0) >= 1
  return res


NESTED_FAILURES = {'StopIteration': StopIteration, 'KeyError': KeyError,
                   'TypeError': TypeError, 'AttributeError': AttributeError,
                   'ValueError': ValueError, 'RuntimeError': RuntimeError}


def check_build_with_failing_child(cfg, m, op, probes, plan):
  """A nested Buildable's callable raises: the configured call cannot be formed,
  so build must fail -- never call f with whatever is left."""
  rec = stubs.CURRENT
  raised = []

  def hook(r, state):
    if r.stub in ('g0', 'g1'):
      state['n'] += 1
      if state['n'] == plan['nth']:
        e = NESTED_FAILURES[plan['cls']](f'nested callable #{state["n"]} fails')
        raised.append(e)
        raise e
  st = {'n': 0}
  rec.on_invoke = lambda r: hook(r, st)
  try:
    try:
      model_build(m, {}, {})
      return None                      # fewer nested calls than nth: no fault here
    except Exception as e:  # pylint: disable=broad-except
      chain, e_ = [], e
      while e_ is not None and len(chain) < 10:
        chain.append(e_)
        e_ = e_.__cause__ or e_.__context__
      if not raised or not any(c is raised[-1] for c in chain):
        if isinstance(e, (Unformable, TypeError)):
          return None                  # unformable for other reasons: plain arm's business
        raise
    n_before = len(rec.log)
    st2 = {'n': 0}
    rec.on_invoke = lambda r: hook(r, st2)
    try:
      actual = fdl.build(cfg)
      act_exc = None
    except Exception as e:  # pylint: disable=broad-except
      actual, act_exc = None, e
  finally:
    rec.on_invoke = None
  probes['build_with_failing_child'] = probes.get('build_with_failing_child', 0) + 1
  if act_exc is None:
    called = [r.stub for r in rec.log[n_before:]]
    return viol('C01', 'called-without-failed-child', op,
                f'a nested callable raised {plan["cls"]} but build returned '
                + C.short(C.canon(actual)) + f' (invocations: {called})', m)
  return None


def check_build(cfg, m, op, probes):
  flags = {}
  try:
    expected = model_build(m, {}, flags)
    exp_exc = None
  except Unformable as e:
    exp_exc, expected = e, None
    probes['build_unformable'] = probes.get('build_unformable', 0) + 1
  except TypeError as e:
    exp_exc, expected = e, None
    probes['build_python_refuses'] = probes.get('build_python_refuses', 0) + 1
  try:
    actual = fdl.build(cfg)
    act_exc = None
  except Exception as e:  # pylint: disable=broad-except
    act_exc, actual = e, None
  extra = {'gap_default': bool(flags.get('gap_default'))}
  if flags.get('gap_default'):
    probes['build_gap_default'] = probes.get('build_gap_default', 0) + 1
  if exp_exc is not None:
    if act_exc is None:
      return viol('C01', 'did-not-raise', op,
                  'the configured arguments cannot form a call '
                  f'({type(exp_exc).__name__}: {exp_exc}) but build returned '
                  + C.short(C.canon(actual)) + f'; cfg[:]={cfg[:]!r}', m, extra)
    return None
  probes['build_ok'] = probes.get('build_ok', 0) + 1
  if act_exc is not None:
    if flags.get('gap_default'):
      return None  # refusing a gap is conservative, not a mis-binding
    return viol('C01', 'raised-but-formable', op,
                f'direct call works but build raised {type(act_exc).__name__}: '
                + C.norm_text(str(act_exc))[:200], m, extra)
  a, b = C.canon(expected), C.canon(actual)
  if a != b:
    return viol('C01', 'mis-bound', op,
                'build != direct call: ' + '; '.join(C.diff(a, b))
                + f'; cfg[:]={C.norm_text(repr(cfg[:]))}', m, extra)
  return None


# --------------------------------------------------------------------------
# shrinking
# --------------------------------------------------------------------------
def shrink_candidates(case):
  ops = case['ops']
  for shorter in S.ddmin_candidates(ops):
    c = copy.deepcopy(case)
    c['ops'] = copy.deepcopy(shorter)
    yield c
  # simplify init
  init = case['init']
  if init['args']:
    c = copy.deepcopy(case)
    c['init']['args'] = init['args'][:-1]
    yield c
  for k in list(init['kwargs']):
    c = copy.deepcopy(case)
    del c['init']['kwargs'][k]
    yield c
  # drop parameters from the signature (last first)
  params = case['spec']['params']
  for i in range(len(params) - 1, -1, -1):
    c = copy.deepcopy(case)
    del c['spec']['params'][i]
    yield c
  if case['spec']['kind'] != 'func':
    c = copy.deepcopy(case)
    c['spec']['kind'] = 'func'
    c['spec'].pop('pre', None)
    if all(p[2] != 'f' for p in c['spec']['params']) and case['spec']['kind'] != 'uinst':
      yield c
  # simplify values to plain tokens
  for i, op in enumerate(ops):
    if isinstance(op.get('v'), dict):
      c = copy.deepcopy(case)
      c['ops'][i]['v'] = 7000 + i
      yield c
    if 'vs' in op and any(isinstance(v, dict) for v in op['vs']):
      c = copy.deepcopy(case)
      c['ops'][i]['vs'] = [7000 + i * 10 + j for j in range(len(op['vs']))]
      yield c


class Machine:
  name = 'edit'
  properties = ('C03', 'C01')

  def gen(self, world, tier, prop):
    return gen_case(world, tier, prop)

  def run(self, case):
    try:
      return run(case)
    except KeyError as e:
      # a shrunk case may reference a dropped share id / param: not a run
      if case.get('_shrunk'):
        return {'violations': [], 'discarded': 'dangling'}
      raise

  def shrink_candidates(self, case):
    for c in shrink_candidates(case):
      c['_shrunk'] = True
      yield c

  def size(self, case):
    return len(case['ops'])

  def sample(self, case, res):
    return {'signature': stubs.sig_source(case['spec']['params']),
            'kind': case['spec']['kind'], 'init': case['init'],
            'ops': case['ops'][:8], 'n_ops': len(case['ops'])}


MACHINE = Machine()
