"""Heap machine: a small heap of live configurations; copies / transports and
edits on any node of any live config, lock-step against a model heap.

mode C07: copy, deepcopy, pickle, cast, copy_with, deepcopy_with + edits and tag
          edits afterwards.  Oracle: joint canon of ALL live roots (faithful
          copy, sharing preserved / not shared, edits never leak) + identity
          disjointness of argument dicts, tag sets and history lists.
mode C14: tag API, TaggedValue assignment, set_tagged, select(tag).replace,
          list_tags, transports (copy, deepcopy, pickle, cast, JSON, diff
          application), build.  Oracle: joint canon incl. tag sets of every
          reachable node (= the frame condition).

Fault kind: rejected_op (invalid tag operations must raise and change nothing).
"""
from __future__ import annotations

import copy
import pickle

import fiddle as fdl
from fiddle import selectors
from fiddle._src import tagging
from fiddle._src import diffing
from fiddle.experimental import serialization

from fsim import canon as C
from fsim import model as M
from fsim import shrink as S
from fsim import stubmod
from fsim import stubs
from fsim.world import stable_hash
from machines.build import BUILD_STUBS

NAMES = {'n0': ['x', 'y', 'z'], 'n1': ['y', 'extra'], 'N2': ['x', 'k'],
         'N3': ['x', 'y'], 'n4': [], 'n5': ['x'], 'n6': ['x', 'y', 'k'],
         'n0b': ['x', 'y', 'w'], 'n7': ['x', 'extra'], 'n9': ['x', 'y'], 'n10': ['y', 'extra'], 'n12': ['y']}
JSON_OK = ('n0', 'n1', 'N2', 'N3', 'n6', 'n0b', 'n7', 'n9', 'n10', 'n12')   # stubs that have a pyref
TAGS = ['T0', 'T1', 'T2', 'U0']
BTYPES = {'Config': fdl.Config, 'Partial': fdl.Partial,
          'ArgFactory': fdl.ArgFactory}


# --------------------------------------------------------------------------
# graph helpers (both sides)
# --------------------------------------------------------------------------
def kids(v):
  if isinstance(v, fdl.Buildable):
    return [v.__arguments__[k] for k in sorted(v.__arguments__, key=C.key_repr)]
  if isinstance(v, M.MNode):
    st = v.storage()
    return [st[k] for k in sorted(st, key=C.key_repr)]
  if isinstance(v, (list, tuple)):
    return list(v)
  if isinstance(v, dict):
    return list(v.values())
  return []


def is_node(v):
  return isinstance(v, (fdl.Buildable, M.MNode))


def is_tv(v):
  from fiddle._src import config as _cfg
  return isinstance(v, _cfg.TaggedValueCls) or (
      isinstance(v, M.MNode) and v.btype == 'TaggedValueCls')


def enum_nodes(root):
  """Buildable nodes reachable from root, DFS pre-order, each once."""
  seen, out = set(), []

  def go(v):
    if id(v) in seen:
      return
    if is_node(v) or isinstance(v, (list, dict)):
      seen.add(id(v))
    if is_node(v):
      out.append(v)
    for c in kids(v):
      go(c)
  go(root)
  return out


def mdeep(v, memo):
  """Deep copy of a model value, preserving sharing inside the copy."""
  k = id(v)
  if k in memo:
    return memo[k][1]
  if isinstance(v, M.MNode):
    out = M.MNode(v.btype, v.fn, v.sv)
    memo[k] = (v, out)
    out.named = {n: mdeep(x, memo) for n, x in v.named.items()}
    out.pos = {i: mdeep(x, memo) for i, x in v.pos.items()}
    out.tail = [mdeep(x, memo) for x in v.tail]
    out.tags = {kk: set(ts) for kk, ts in v.tags.items()}
    return out
  if isinstance(v, list):
    out = []
    memo[k] = (v, out)
    out.extend(mdeep(x, memo) for x in v)
    return out
  if isinstance(v, dict):
    out = {}
    memo[k] = (v, out)
    for kk, x in v.items():
      out[kk] = mdeep(x, memo)
    return out
  if isinstance(v, tuple):
    out = tuple(mdeep(x, memo) for x in v)
    memo[k] = (v, out)
    return out
  return v


# --------------------------------------------------------------------------
# generation
# --------------------------------------------------------------------------
def gen_case(world, tier, prop):
  rng = world.stream('gen')
  mode = prop if prop in ('C07', 'C14') else 'C07'
  tok = [100]
  uidc = [0]
  fn_of = []   # root fn per live config (approximation for op choice)

  def token():
    tok[0] += 1
    return tok[0]

  def uid():
    uidc[0] += 1
    return uidc[0]

  def tv():
    d = {'tags': rng.sample(TAGS, rng.randint(1, 2))}
    if rng.random() < 0.6:
      d['value'] = token()
    via = rng.choice([None, None, 'new', 'with_tags'])
    if via:
      d['via'] = via      # made by Tag.new / with_tags instead of TaggedValue(...)
    return {'tv': d}

  def value(depth=0, allow_tv=True):
    r = rng.random()
    if r < 0.03:
      return {'novalue': 1}   # the NO_VALUE sentinel stored explicitly
    if r < 0.07:
      return {'list': [7]}    # equal to other such lists, never the same object
    if r < 0.085:
      return {'halfcopy': rng.randrange(2)}   # one of two objects, so often twice
    if r < 0.45 or depth >= 2:
      return token()
    if r < 0.58 and allow_tv:
      return tv()
    if r < 0.70:
      return {'list': [value(depth + 1) for _ in range(rng.randint(0, 2))]}
    if r < 0.76:
      return {'tuple': [value(depth + 1) for _ in range(rng.randint(1, 2))]}
    if r < 0.82:
      return {'dict': [['k%d' % i, value(depth + 1)] for i in range(rng.randint(1, 2))]}
    if r < 0.90 and fn_of:
      return {'ref': [rng.randrange(len(fn_of)), rng.randint(0, 5)]}
    return node(depth + 1)

  def node(depth=0, fn=None):
    fn = fn or rng.choice(list(NAMES))
    u = uid()
    if fn in ('n1', 'n10'):
      args = [u] + ([value(depth)] if rng.random() < 0.7 else [])
      kwargs = {}
      if len(args) == 2 and rng.random() < 0.5:
        args += [value(depth, allow_tv=False) for _ in range(rng.randint(1, 3))]
      elif rng.random() < 0.5:
        kwargs['y'] = value(depth)
      if rng.random() < 0.3:
        kwargs['extra'] = value(depth)
    elif fn == 'n4':
      args = [u] + [value(depth, allow_tv=False) for _ in range(rng.randint(0, 3))]
      kwargs = {}
    else:
      args, kwargs = [], {'uid': u}
      for nm in NAMES[fn]:
        if rng.random() < 0.55:
          kwargs[nm] = value(depth)
        elif rng.random() < 0.12:
          kwargs[nm] = 'd_' + nm     # explicitly set to (what usually is) the default
    bt = 'Config' if rng.random() < 0.85 else 'Partial'
    return {'node': {'btype': bt, 'fn': fn, 'args': args, 'kwargs': kwargs}}

  def new_op():
    d = node(0)
    fn_of.append(d['node']['fn'])
    if d['node']['fn'] == 'n12' and rng.random() < 0.7:
      # ... followed by `cfg.x = cfg.x`: the default OBJECT is stored explicitly
      pending.append({'op': 'store_default', 'c': len(fn_of) - 1, 'n': 0, 'name': 'x'})
    return {'op': 'new', 'v': d}

  def target():
    c = rng.randrange(len(fn_of))
    return c, (0 if rng.random() < 0.5 else rng.randint(0, 6))

  def edit_op():
    c, n = target()
    fn = fn_of[c] if n == 0 else rng.choice(list(NAMES))
    names = NAMES[fn] or ['x']
    r = rng.random()
    if r < 0.5:
      op_ = {'op': 'setattr', 'c': c, 'n': n,
             'name': rng.choice(names + ['zz_unknown'] if rng.random() < 0.1 else names),
             'v': value()}
      if isinstance(op_['v'], dict) and 'halfcopy' in op_['v'] and rng.random() < 0.7:
        # a deep copy that must fail, the value is replaced, the deep copy again
        pending.extend([{'op': 'deepcopy', 'c': c}, dict(op_, v=token()),
                        {'op': 'deepcopy', 'c': c}])
        fn_of.extend([fn_of[c], fn_of[c]])
      return op_
    if r < 0.56:
      kw = [[nm, value()] for nm in rng.sample(names, min(len(names), rng.randint(1, 2)))]
      if rng.random() < 0.6:
        kw.append(['zz_unknown', 0])      # refused after the valid ones were applied
      return {'op': 'assign', 'c': c, 'n': n, 'kwargs': kw}
    if r < 0.65:
      return {'op': 'delattr', 'c': c, 'n': n, 'name': rng.choice(names)}
    if r < 0.8:
      return {'op': 'setitem', 'c': c, 'n': n, 'key': rng.randint(0, 3), 'v': value()}
    if r < 0.9:
      return {'op': 'setitem', 'c': c, 'n': n, 'key': {'slice': ['VA', None, None]},
              'vs': [value(allow_tv=False) for _ in range(rng.randint(0, 3))]}
    return {'op': 'delitem', 'c': c, 'n': n, 'key': rng.choice([0, 1, 2, -1, 'VA'])}

  def tag_op():
    c, n = target()
    fn = fn_of[c] if n == 0 else rng.choice(list(NAMES))
    names = NAMES[fn] or ['x']
    r = rng.random()
    if r < 0.7:
      arg = rng.choice(names)
    elif r < 0.9:
      arg = rng.randint(0, 4)
    else:
      arg = rng.choice(['zz_unknown', -1, 9, 'uid'])
    kind = rng.choice(['add_tag', 'add_tag', 'add_tag', 'remove_tag', 'set_tags', 'clear_tags'])
    op = {'op': kind, 'c': c, 'n': n, 'arg': arg}
    if kind in ('add_tag', 'remove_tag'):
      op['tag'] = rng.choice(TAGS)
    if kind == 'set_tags':
      op['tags'] = rng.sample(TAGS, rng.randint(0, 2))
      op['coll'] = rng.choice(['list', 'set', 'set', 'tuple', 'frozenset'])
      if op['coll'] == 'set':
        # few combinations, so that the caller's set object is passed again
        op['tags'] = rng.choice([['T0'], ['T1', 'U0']])
    return op

  def copy_op():
    c = rng.randrange(len(fn_of))
    kind = rng.choice(['copy', 'deepcopy', 'pickle', 'cast', 'copy_with',
                       'deepcopy_with'] if mode == 'C07' else
                      ['copy', 'deepcopy', 'pickle', 'cast', 'json', 'json',
                       'diff_tags', 'diff_tags'])
    op = {'op': kind, 'c': c}
    names = NAMES[fn_of[c]] or []
    if kind == 'cast':
      op['btype'] = rng.choice(['Config', 'Partial', 'ArgFactory'])
    if kind in ('copy_with', 'deepcopy_with'):
      op['kwargs'] = {nm: value() for nm in rng.sample(names, min(len(names), rng.randint(0, 2)))}
    if kind == 'diff_tags':
      op['edits'] = []
      if rng.random() < 0.3:
        # the callable is swapped and the NEW callable's parameter is tagged
        n = 0 if rng.random() < 0.6 else rng.randint(0, 4)
        op['edits'].append({'op': 'update_callable', 'c': 0, 'n': n,
                            'fn': rng.choice(['n0b', 'n0', 'n7']), 'drop': True})
        op['edits'].append({'op': 'add_tag', 'c': 0, 'n': n,
                            'arg': rng.choice(['w', 'z', 'x']), 'tag': rng.choice(TAGS)})
      for _ in range(rng.randint(1, 3)):
        e = tag_op()
        e['c'] = 0   # relative to the scratch copy
        op['edits'].append(e)
    fn_of.append(fn_of[c])
    return op

  late_defined = [False]
  pending = []
  ops = [new_op()]
  n = rng.randint(3, 16 if tier == 'thorough' else 11)
  while len(ops) < n:
    r = rng.random()
    if pending and rng.random() < 0.5:
      ops.append(pending.pop(0))
      continue
    last = ops[-1]
    if last.get('coll') == 'set' and not pending and rng.random() < 0.5:
      # the caller uses its set object again, elsewhere, and then one of the two
      # places is edited
      again = tag_op()
      again.update(op='set_tags', tags=list(last['tags']), coll='set')
      again.pop('tag', None)
      edit = dict(rng.choice([last, again]), op=rng.choice(['add_tag', 'remove_tag', 'clear_tags']))
      edit.pop('tags', None); edit.pop('coll', None)
      if edit['op'] != 'clear_tags':
        edit['tag'] = rng.choice(TAGS)
      pending += [again, edit]
    if rng.random() < 0.06:
      ops.append({'op': rng.choice(['suspend_enter', 'suspend_exit'])})
      continue
    if 'n9' in fn_of and not late_defined[0] and rng.random() < 0.15:
      # the global that n9's string annotation names comes into existence
      ops.append({'op': 'define_late'})
      late_defined[0] = True
      if rng.random() < 0.7:
        ops.append({'op': 'new', 'v': node(0, fn='n9')})   # a configuration made afterwards
        fn_of.append('n9')
      continue
    if mode == 'C07':
      if r < 0.10:
        ops.append(new_op())
      elif r < 0.40:
        ops.append(copy_op())
      elif r < 0.75:
        ops.append(edit_op())
      elif r < 0.92:
        ops.append(tag_op())
      else:
        ops.append({'op': 'build', 'c': rng.randrange(len(fn_of))})
    else:
      if r < 0.08:
        ops.append(new_op())
      elif r < 0.30:
        ops.append(tag_op())
      elif r < 0.45:
        ops.append(edit_op())
      elif r < 0.62:
        ops.append(copy_op())
      elif r < 0.70:
        kind_ = rng.choice(['set_tagged', 'select_replace'])
        r_ = rng.random()
        if r_ < 0.7:
          v_ = token()
        elif r_ < 0.85 or kind_ == 'set_tagged':
          v_ = {'list': [7]}
        else:
          # a TaggedValue as the replacement: unpacked at every site (its tags
          # are added, its value - here a mutable one - is stored)
          v_ = {'tv': {'tags': [rng.choice(['U0', 'T2'])],
                       'value': {'list': [7]} if rng.random() < 0.7 else token()}}
        ops.append({'op': kind_, 'c': rng.randrange(len(fn_of)),
                    'tag': rng.choice(TAGS), 'v': v_})
      elif r < 0.715:
        # the callable is swapped in place (for one that lacks a parameter, has
        # another one, or takes everything through **kwargs)
        c_, n_ = target()
        ops.append({'op': 'update_callable', 'c': c_, 'n': n_,
                    'fn': rng.choice(['n0', 'n0b', 'n7', 'n7']),
                    'drop': rng.random() < 0.6})
      elif r < 0.73:
        # a selection object is kept and used later, after other operations
        ops.append({'op': 'select_make', 'c': rng.randrange(len(fn_of)),
                    'tag': rng.choice(TAGS)})
      elif r < 0.76:
        ops.append({'op': 'select_use', 's': rng.randint(0, 3), 'v': token()})
      elif r < 0.88:
        ops.append({'op': 'list_tags', 'c': rng.randrange(len(fn_of)),
                    'supers': rng.random() < 0.5})
      else:
        ops.append({'op': 'build', 'c': rng.randrange(len(fn_of))})
  return {'mode': mode, 'ops': ops}


# --------------------------------------------------------------------------
# op application
# --------------------------------------------------------------------------
EFFECTIVE = {}


class Skip(Exception):
  """Op does not apply in the current heap (e.g. no such node)."""


class Side:

  def __init__(self, side, fns, svs):
    self.side = side
    self.mk = M.Maker(side, fns, svs)
    self.fns = fns
    self.roots = []
    self.pairs = []   # (orig_root, copy_root, deep?) for identity checks
    self.sels = []    # kept selection objects (impl) / (root, tag) (model)
    self.suspend = [] # entered suspend_tracking() blocks (impl only)
    self.last_broadcast = (None, False)   # (value, per-site copies?) of the last broadcast
    self.leafpool = {}   # opaque leaf objects that may be referenced repeatedly
    self.owned = {}      # tag collections owned by the caller and re-used

  def value(self, d):
    """Maker with {'ref': [c, n]} resolved against the live heap."""
    if isinstance(d, dict):
      if 'ref' in d:
        if not self.roots:
          raise Skip()
        c, n = d['ref']
        nodes = [x for x in enum_nodes(self.roots[c % len(self.roots)])
                 if not is_tv(x)]   # a TaggedValue would be expanded on arrival
        if not nodes:
          raise Skip()
        return nodes[n % len(nodes)]
      if 'list' in d:
        return [self.value(e) for e in d['list']]
      if 'tuple' in d:
        return tuple(self.value(e) for e in d['tuple'])
      if 'dict' in d:
        return {k: self.value(v) for k, v in d['dict']}
      if 'novalue' in d:
        return M.NO_VALUE
      if 'halfcopy' in d:
        if d['halfcopy'] not in self.leafpool:
          self.leafpool[d['halfcopy']] = stubmod.HalfCopyable(d['halfcopy'])
        return self.leafpool[d['halfcopy']]
      if 'node' in d:
        nd = d['node']
        args = [self.value(a) for a in nd['args']]
        kwargs = {k: self.value(v) for k, v in nd['kwargs'].items()}
        fn = self.fns[nd['fn']]
        if self.side == 'model':
          m = M.MNode(nd['btype'], fn, self.mk.sv(nd['fn']))
          m.bind(args, kwargs)
          return m
        return BTYPES[nd['btype']](fn, *args, **kwargs)
    return self.mk(d)

  def target(self, op):
    if not self.roots:
      raise Skip()
    nodes = enum_nodes(self.roots[op['c'] % len(self.roots)])
    return nodes[op.get('n', 0) % len(nodes)]

  def root(self, op):
    if not self.roots:
      raise Skip()
    return self.roots[op['c'] % len(self.roots)]


def real_key(k, va):
  if k == 'VA':
    return va
  if isinstance(k, dict):
    a, b, c = (va if e == 'VA' else e for e in k['slice'])
    return slice(a, b, c)
  return k


def tag_supers(t):
  return stubmod.TAG_SUPERS[t]


def matches(tag_names, T):
  return any(T in tag_supers(t) for t in tag_names)


def model_apply(S_: Side, op):
  k = op['op']
  if k == 'define_late':
    # from now on Config(n9) finds the tag its annotation names
    S_.fns['n9']._fsim_ann = {'x': ['T1']}
    return None
  if k == 'new':
    S_.roots.append(S_.value(op['v']))
    return None
  if k in ('setattr', 'delattr', 'setitem', 'delitem'):
    m = S_.target(op)
    if m.btype == 'TaggedValueCls':
      raise Skip()   # editing the parameters of a TaggedValue itself is misuse
    if k in ('setattr', 'setitem'):
      # a {'ref': ...} value must not be able to reach the edited node (cycle)
      for d in ([op['v']] if 'v' in op else op['vs']):
        if 'ref' in C.short(d, 10 ** 9):
          if any(x is m for x in enum_nodes(S_.value(d))):
            raise Skip()
    if k == 'setattr':
      if not m.can_setattr(op['name']):
        raise M.Invalid('name')
      m.setattr(op['name'], S_.value(op['v']))
    elif k == 'delattr':
      m.delattr(op['name'])
    elif k == 'setitem':
      if m.sv.va is None and 'VA' in str(op['key']):
        raise Skip()
      key = real_key(op['key'], m.sv.P)
      if 'vs' in op:
        probe = m.clone_shallow()
        probe.setitem(key, [None] * len(op['vs']))
        m.setitem(key, [S_.value(v) for v in op['vs']])
      else:
        m._norm_index(key)
        m.setitem(key, S_.value(op['v']))
    else:
      if m.sv.va is None and op['key'] == 'VA':
        raise Skip()
      m.delitem(real_key(op['key'], m.sv.P))
    return None
  if k == 'store_default':
    m = S_.target(op)
    if m.btype == 'TaggedValueCls' or op['name'] not in m.sv.defaults or op['name'] in m.named:
      raise Skip()
    m.setattr(op['name'], m.sv.defaults[op['name']])   # the default object itself
    return None
  if k == 'assign':
    # fdl.assign(node, **kwargs): assignments in keyword order; the first refused
    # name raises, what was assigned before it stays
    m = S_.target(op)
    if m.btype == 'TaggedValueCls':
      raise Skip()
    # (all values exist before the call, as for any keyword call: a {'ref': ..}
    # is resolved against the heap as it is BEFORE the first assignment)
    vals = [0 if name == 'zz_unknown' else S_.value(v) for name, v in op['kwargs']]
    for (name, v), val in zip(op['kwargs'], vals):
      if 'ref' in C.short(v, 10 ** 9) and any(x is m for x in enum_nodes(val)):
        raise Skip()     # (would create a reference cycle)
    for (name, v), val in zip(op['kwargs'], vals):
      if not m.can_setattr(name):
        return 'raises'
      m.setattr(name, val)
    return None
  if k == 'update_callable':
    m = S_.target(op)
    if m.btype == 'TaggedValueCls':
      raise Skip()
    if m.pos or m.tail:
      raise M.Invalid('update_callable with positional arguments is unsupported')
    new_sv = S_.mk.sv(op['fn'])
    if any(ts and isinstance(key, int) for key, ts in m.tags.items()):
      raise Skip()   # tags addressed by position, under another signature
    if new_sv.vk is None and any(
        ts and isinstance(key, str) and key not in new_sv.pk and key not in new_sv.ko
        for key, ts in m.tags.items()):
      raise Skip()   # update_callable keeps tags of parameters that no longer
                     # exist; what set_tagged should do with them is unspecified
    bad = [n for n in m.named
           if n not in new_sv.pk and n not in new_sv.ko and new_sv.vk is None]
    if bad and not op.get('drop'):
      raise M.Invalid('arguments invalid for the new callable')
    for n in bad:
      del m.named[n]
    m.fn, m.sv = S_.fns[op['fn']], new_sv
    return None
  if k in ('add_tag', 'remove_tag', 'set_tags', 'clear_tags'):
    m = S_.target(op)
    if m.btype == 'TaggedValueCls' and op['arg'] not in ('value', 0):
      raise Skip()   # tagging the `tags` parameter of a TaggedValue is misuse
    if k == 'add_tag':
      m.add_tag(op['arg'], op['tag'])
    elif k == 'remove_tag':
      m.remove_tag(op['arg'], op['tag'])
    elif k == 'set_tags':
      m.set_tags(op['arg'], op['tags'])
    else:
      m.clear_tags(op['arg'])
    return None
  if k in ('copy', 'cast', 'copy_with'):
    src = S_.root(op)
    new = src.clone_shallow(op.get('btype'))
    if k == 'copy_with':
      for n, v in op['kwargs'].items():
        if not new.can_setattr(n):
          raise M.Invalid('name')
      for n, v in op['kwargs'].items():
        new.setattr(n, S_.value(v))
    S_.roots.append(new)
    S_.pairs.append((src, new, False))
    return None
  if k in ('deepcopy', 'pickle', 'json', 'deepcopy_with'):
    src = S_.root(op)
    if k == 'json' and any(getattr(n.fn, '__name__', None) not in JSON_OK + ('tagged_value_fn',)
                           for n in enum_nodes(src)):
      raise Skip()   # callable has no importable name: dump_json rightly refuses
    new = mdeep(src, {})
    if k == 'deepcopy_with':
      for n, v in op['kwargs'].items():
        if not new.can_setattr(n):
          raise M.Invalid('name')
      for n, v in op['kwargs'].items():
        new.setattr(n, S_.value(v))
    S_.roots.append(new)
    S_.pairs.append((src, new, True))
    return None
  if k == 'diff_tags':
    src = S_.root(op)
    new = mdeep(src, {})
    S_.roots.append(new)
    effective = []
    for i, e in enumerate(op['edits']):
      e2 = dict(e, c=len(S_.roots) - 1)
      try:
        model_apply(S_, e2)
        effective.append(i)
      except (M.Invalid, Skip):
        pass
    EFFECTIVE[id(op)] = effective   # the implementation applies the same ones
    return None
  if k in ('suspend_enter', 'suspend_exit'):
    return None   # history tracking never influences arguments or tags
  if k == 'select_make':
    S_.sels.append((S_.root(op), op['tag']))
    return None
  if k in ('set_tagged', 'select_replace', 'select_use'):
    if k == 'select_use':
      if not S_.sels:
        raise Skip()
      root, T = S_.sels[op['s'] % len(S_.sels)]
    else:
      root = S_.root(op)
      T = op['tag']
    v = S_.value(op['v'])
    # a matching tag on a *args position that holds no value: writing there
    # would leave a hole - unspecified, whichever node is visited first
    for m in enum_nodes(root):
      for key, ts in m.tags.items():
        if (ts and matches(ts, T) and isinstance(key, int)
            and key >= m.sv.P and key - m.sv.P >= len(m.tail)):
          raise Skip()
    # replace() hands every site its OWN deep copy of a mutable value (a list,
    # a TaggedValue wrapping one); set_tagged stores the very object everywhere
    per_site = k in ('select_replace', 'select_use') and (
        isinstance(v, (list, dict)) or isinstance(v, M.MNode))
    S_.last_broadcast = (v, per_site)
    done = set()
    changed = True
    rounds = 0
    while changed:
      changed = False
      rounds += 1
      for m in enum_nodes(root):
        for key, ts in list(m.tags.items()):
          if ts and matches(ts, T):
            cur = m.storage().get(key, M.NO_VALUE)
            if per_site:
              if (id(m), key) in done:
                continue
              done.add((id(m), key))
              val = mdeep(v, {})
            else:
              if cur is v:
                continue
              val = v
            if isinstance(key, str) or key < m.sv.P:
              m._store(key, val)
            else:
              _store_tail(m, key, val)
            changed = True
        if changed:
          break
    return None
  if k == 'list_tags':
    root = S_.root(op)
    out = set()
    for m in enum_nodes(root):
      for ts in m.tags.values():
        out |= set(ts)
    if op['supers']:
      for t in list(out):
        out |= tag_supers(t)
    return sorted(out)
  if k == 'build':
    root = S_.root(op)
    if any(n.btype == 'ArgFactory' for n in enum_nodes(root)):
      raise Skip()   # building a bare ArgFactory is documented as unsupported
    try:
      return C.canon(M.model_build(root, {}), kw_unordered=True)
    except (M.Unformable, TypeError, NotImplementedError):
      return 'RAISES'
  raise ValueError(k)


def _store_tail(m, key, v):
  j = key - m.sv.P
  if j < len(m.tail):
    m._store(key, v)    # (expands a TaggedValue like every other store)
  else:
    raise Skip()   # tag on a *args position that holds no value: setting it
                   # would leave a hole; unspecified


def impl_apply(S_: Side, op):
  k = op['op']
  if k == 'define_late':
    stubmod.LATE_A = stubmod.T1
    return None
  if k == 'new':
    S_.roots.append(S_.value(op['v']))
    return None
  if k in ('setattr', 'delattr', 'setitem', 'delitem'):
    cfg = S_.target(op)
    if k == 'setattr':
      setattr(cfg, op['name'], S_.value(op['v']))
    elif k == 'delattr':
      delattr(cfg, op['name'])
    elif k == 'setitem':
      key = real_key(op['key'], fdl.VARARGS)
      if 'vs' in op:
        cfg[key] = [S_.value(v) for v in op['vs']]
      else:
        cfg[key] = S_.value(op['v'])
    else:
      del cfg[real_key(op['key'], fdl.VARARGS)]
    return None
  if k == 'suspend_enter':
    from fiddle import history as _h
    if len(S_.suspend) < 2:
      cm = _h.suspend_tracking()
      cm.__enter__()
      S_.suspend.append(cm)
    return None
  if k == 'suspend_exit':
    if S_.suspend:
      S_.suspend.pop().__exit__(None, None, None)
    return None
  if k == 'select_make':
    S_.sels.append(selectors.select(S_.root(op), tag=stubmod.TAGS[op['tag']]))
    return None
  if k == 'select_use':
    S_.sels[op['s'] % len(S_.sels)].replace(S_.value(op['v']))
    return None
  if k == 'store_default':
    tgt = S_.target(op)
    setattr(tgt, op['name'], getattr(tgt, op['name']))
    return None
  if k == 'assign':
    from fiddle._src import mutate_buildable
    # (values are made in keyword order, like the model does, up to the refusal)
    kw, tgt = {}, S_.target(op)
    for name, v in op['kwargs']:
      kw[name] = S_.value(v) if (name != 'zz_unknown') else 0
    mutate_buildable.assign(tgt, **kw)
    return None
  if k == 'update_callable':
    from fiddle._src import mutate_buildable
    mutate_buildable.update_callable(S_.target(op), S_.fns[op['fn']],
                                     drop_invalid_args=op.get('drop', False))
    return None
  if k == 'add_tag':
    tagging.add_tag(S_.target(op), op['arg'], stubmod.TAGS[op['tag']])
    return None
  if k == 'remove_tag':
    tagging.remove_tag(S_.target(op), op['arg'], stubmod.TAGS[op['tag']])
    return None
  if k == 'set_tags':
    tags = [stubmod.TAGS[t] for t in op['tags']]
    coll = op.get('coll', 'list')
    if coll == 'set':
      # ONE set object per tag combination, owned by the caller and passed again
      # on every such call
      key = tuple(sorted(op['tags']))
      if key not in S_.owned:
        S_.owned[key] = set(tags)
      tags = S_.owned[key]
    elif coll in ('tuple', 'frozenset'):
      tags = {'tuple': tuple, 'frozenset': frozenset}[coll](tags)
    tagging.set_tags(S_.target(op), op['arg'], tags)
    return None
  if k == 'clear_tags':
    tagging.clear_tags(S_.target(op), op['arg'])
    return None
  src = S_.root(op)
  if k == 'copy':
    new = copy.copy(src)
  elif k == 'cast':
    new = fdl.cast(BTYPES[op['btype']], src)
  elif k == 'copy_with':
    new = fdl.copy_with(src, **{n: S_.value(v) for n, v in op['kwargs'].items()})
  elif k == 'deepcopy':
    new = copy.deepcopy(src)
  elif k == 'pickle':
    new = pickle.loads(pickle.dumps(src))
  elif k == 'json':
    new = serialization.load_json(serialization.dump_json(src))
  elif k == 'deepcopy_with':
    new = fdl.deepcopy_with(src, **{n: S_.value(v) for n, v in op['kwargs'].items()})
  elif k == 'diff_tags':
    scratch = copy.deepcopy(src)
    S_.roots.append(scratch)
    try:
      for i in EFFECTIVE.get(id(op), range(len(op['edits']))):
        impl_apply(S_, dict(op['edits'][i], c=len(S_.roots) - 1))
    finally:
      S_.roots.pop()
    new = copy.deepcopy(src)
    diff = diffing.build_diff(src, scratch)
    diffing.apply_diff(diff, new)
  elif k == 'set_tagged':
    tagging.set_tagged(src, tag=stubmod.TAGS[op['tag']], value=S_.value(op['v']))
    return None
  elif k == 'select_replace':
    selectors.select(src, tag=stubmod.TAGS[op['tag']]).replace(S_.value(op['v']))
    return None
  elif k == 'list_tags':
    return sorted(C.tag_name(t) for t in
                  tagging.list_tags(src, add_superclasses=op['supers']))
  elif k == 'build':
    try:
      # (the order of **kwargs entries is storage order, which transports and
      # callable swaps may legitimately canonicalise: compared by key here; C01
      # and C03 pin the order for plain edit histories)
      return C.canon(fdl.build(src), kw_unordered=True)
    except Exception:  # pylint: disable=broad-except
      return 'RAISES'
  else:
    raise ValueError(k)
  S_.roots.append(new)
  S_.pairs.append((src, new, k in ('deepcopy', 'pickle', 'json', 'deepcopy_with', 'diff_tags')))
  return None


def holds_uncopyable(root):
  seen = set()

  def go(v):
    if id(v) in seen:
      return False
    seen.add(id(v))
    if isinstance(v, stubmod.HalfCopyable):
      return True
    if isinstance(v, fdl.Buildable):
      hist = [e.new_value for es in v.__argument_history__.values() for e in es]
      return any(go(c) for c in list(v.__arguments__.values()) + hist)
    if isinstance(v, (list, tuple)):
      return any(go(c) for c in v)
    if isinstance(v, dict):
      return any(go(c) for c in v.values())
    return False
  return go(root)


def is_copy_root(I, op):
  """True if op addresses the ROOT of a config that a copy op produced."""
  if not I.roots or op.get('n', 0) != 0:
    return False
  root = I.roots[op['c'] % len(I.roots)]
  return any(new is root for _, new, _ in I.pairs)


def reconcile_unreachable(pre, iroot, mroot, op):
  """Arguments that were reachable and tagged before the broadcast but are no
  longer reachable from root afterwards may or may not have received the value
  (the property only constrains what is STILL reachable).  Where fiddle did
  set them, the model follows."""
  pre_i, pre_m = pre
  if len(pre_i) != len(pre_m):
    return
  still = {id(n) for n in enum_nodes(mroot)}
  T = op['tag']
  mkv = op.get('_mkv')
  if isinstance(op['v'], dict):
    if mkv is None:
      return
    eff = mkv()
    if isinstance(eff, M.MNode) and eff.btype == 'TaggedValueCls':
      if 'value' not in eff.named:
        return
      eff = eff.named['value']   # what an argument holds after the expansion
    vcanon = C.canon(eff)
  else:
    vcanon = C.canon(op['v'])
  pre_ids = op.get('_pre_ids') or [{}] * len(pre_i)
  for (ni, nm), ids in zip(zip(pre_i, pre_m), pre_ids):
    if id(nm) in still:
      continue
    for key, ts in list(nm.tags.items()):
      if ts and matches(ts, T):
        got = ni.__arguments__.get(key, M.NO_VALUE)
        if id(got) == ids.get(key) and not isinstance(got, (int, str, float, type(None))):
          continue   # still the object it held before: fiddle did not write here
        if C.canon(got) == vcanon:
          try:
            nm._store(key, mkv() if mkv is not None else op['v'])
          except AssertionError:
            pass


def reconcile_kw_order(pre, before_named):
  """A broadcast that CREATES several **kwargs entries in one Buildable (tagged
  names that had no value) creates them in an order the property does not fix
  (fiddle walks its tag table, whose order also remembers refused tag
  operations).  The model adopts fiddle's order for exactly those new names;
  everything else about the entries was already compared."""
  pre_i, pre_m = pre
  if len(pre_i) != len(pre_m):
    return
  for (ni, nm), old in zip(zip(pre_i, pre_m), before_named):
    fresh = [n for n in nm.named if n not in old]
    if len(fresh) < 2:
      continue
    order = [n for n in ni.__arguments__ if n in fresh]
    if sorted(order) != sorted(fresh):
      continue       # a real difference: leave it for the comparison
    vals = {n: nm.named.pop(n) for n in fresh}
    for n in order:
      nm.named[n] = vals[n]


COPY_OPS = ('copy', 'cast', 'copy_with', 'deepcopy', 'pickle', 'json',
            'deepcopy_with', 'diff_tags')
EDIT_OPS = ('setattr', 'delattr', 'setitem', 'delitem', 'assign', 'store_default')
TAG_OPS = ('add_tag', 'remove_tag', 'set_tags', 'clear_tags')
# (update_callable only occurs inside diff_tags edits)


def identity_leaks(orig, new, deep):
  """Mutable bookkeeping objects shared between an original and its copy."""
  out = []
  pairs = [(orig, new)]
  if deep:
    pairs = list(zip(enum_nodes(orig), enum_nodes(new)))
  for a, b in pairs:
    if a is b:
      out.append('copy is the same object as the original')
      continue
    if a.__arguments__ is b.__arguments__:
      out.append('__arguments__ dict is shared')
    if a.__argument_tags__ is b.__argument_tags__:
      out.append('__argument_tags__ dict is shared')
    for key, ts in a.__argument_tags__.items():
      if key in b.__argument_tags__ and b.__argument_tags__[key] is ts:
        out.append(f'tag set of {key!r} is shared')
    if a.__argument_history__ is b.__argument_history__:
      out.append('__argument_history__ is shared')
    for key, lst in a.__argument_history__.items():
      if key in b.__argument_history__ and b.__argument_history__[key] is lst:
        out.append(f'history list of {key!r} is shared')
  if deep:
    mine = {id(x) for x in _mutables(orig)}
    for x in _mutables(new):
      if id(x) in mine:
        out.append(f'deep copy shares a {type(x).__name__} with the original')
        break
  return out


def _mutables(root):
  seen, out = set(), []

  def go(v):
    if id(v) in seen:
      return
    if isinstance(v, (fdl.Buildable, list, dict, set)):
      seen.add(id(v))
      out.append(v)
    for c in kids(v):
      go(c)
  go(root)
  return out


def V(prop, clause, msg, op):
  return {'fp': {'property': prop, 'clause': clause, 'op': op['op']}, 'msg': msg}


def run(case):
  stubs.reset()
  stubmod.__dict__.pop('LATE_A', None)   # (n9's annotation is unresolvable at first)
  fns = stubs.install(BUILD_STUBS)
  svs = {}
  mode = case['mode']
  I, Mo = Side('impl', fns, svs), Side('model', fns, svs)
  res = {'violations': [], 'faults': {}, 'probes': {}, 'steps': 0,
         'state_hashes': [], 'nontrivial': False}
  probes, faults = res['probes'], res['faults']

  def bump(d, k, n=1):
    d[k] = d.get(k, 0) + n

  changing = 0
  for idx, op in enumerate(case['ops']):
    k = op['op']
    res['steps'] += 1
    before_i = C.canon(tuple(I.roots))
    n_roots = len(Mo.roots)
    pre = None
    if k in ('set_tagged', 'select_replace') and I.roots:
      pre = (enum_nodes(I.root(op)), enum_nodes(Mo.root(op)), I.root(op), Mo.root(op), op['tag'])
    elif k == 'select_use' and Mo.sels:
      mroot_, tag_ = Mo.sels[op['s'] % len(Mo.sels)]
      iroot_ = I.sels[op['s'] % len(I.sels)].cfg
      pre = (enum_nodes(iroot_), enum_nodes(mroot_), iroot_, mroot_, tag_)
    pre_named = [set(n.named) for n in pre[1]] if pre is not None else None
    pre_ids = ([{k_: id(v_) for k_, v_ in n.__arguments__.items()} for n in pre[0]]
               if pre is not None else None)
    # ---- model ----------------------------------------------------------
    try:
      mret = model_apply(Mo, op)
      valid = True
    except Skip:
      del Mo.roots[n_roots:]
      bump(probes, 'skipped_ops')
      # model may be half-applied only for ops that validate first; Skip is
      # raised before any mutation except in set_tagged, handled below
      if k in ('set_tagged', 'select_replace', 'select_use') and Mo.roots:
        res['discarded'] = 'unspecified-tag-target'
        return res
      continue
    except M.Invalid as e:
      valid, why = False, str(e)
      del Mo.roots[n_roots:]
    # ---- implementation -------------------------------------------------
    try:
      iret = impl_apply(I, op)
      raised = None
    except Exception as e:  # pylint: disable=broad-except
      raised = e
      del I.roots[n_roots:]
    if pre is not None and valid and raised is None:
      reconcile_unreachable(pre[:2], pre[2], pre[3],
                            dict(op, tag=pre[4], _pre_ids=pre_ids, _mkv=lambda: (
                                mdeep(Mo.last_broadcast[0], {}) if Mo.last_broadcast[1]
                                else Mo.last_broadcast[0])))
      reconcile_kw_order(pre[:2], pre_named)
    after_i = C.canon(tuple(I.roots))
    after_m = C.canon(tuple(Mo.roots))
    desc = f'op #{idx} {op}'
    if not valid:
      bump(faults, 'rejected_op')
      if raised is None:
        if k in EDIT_OPS:
          res['discarded'] = 'c03_territory'
          return res
        res['violations'].append(V(mode, 'invalid-op-accepted',
                                   f'{desc} is invalid ({why}) but did not raise', op))
        return res
      if after_i != before_i:
        if k in EDIT_OPS:
          res['discarded'] = 'c03_territory'
          return res
        res['violations'].append(V(mode, 'rejected-op-changed-state',
                                   f'{desc} raised {type(raised).__name__} but '
                                   'changed: ' + '; '.join(C.diff(before_i, after_i)), op))
        return res
      continue
    if k == 'assign' and valid and mret == 'raises':
      bump(faults, 'rejected_op')
      if raised is None:
        res['violations'].append(V(mode, 'invalid-op-accepted',
                                   f'{desc}: assign with an unknown name did not raise', op))
        return res
      raised = None     # the refusal was expected; what it left behind is compared
    if (raised is not None and k in ('deepcopy', 'pickle', 'json', 'deepcopy_with',
                                     'diff_tags')
        and holds_uncopyable(I.root(op))):
      # refusing to duplicate a value that cannot be duplicated is loud and
      # therefore fine; what is checked is a copy that IS returned
      bump(probes, 'uncopyable_refused')
      del Mo.roots[n_roots:]
      del Mo.pairs[len(I.pairs):]
      continue
    if raised is not None:
      if k in EDIT_OPS:
        if is_copy_root(I, op):
          res['violations'].append(V(
              mode, 'edit-on-copy-failed',
              f'{desc} on a copied configuration raised '
              f'{type(raised).__name__}: ' + C.norm_text(str(raised))[:200], op))
          return res
        res['discarded'] = 'c03_territory'
        return res
      v = V(mode, 'valid-op-raised',
            f'{desc} raised {type(raised).__name__}: '
            + C.norm_text(str(raised))[:300], op)
      if k == 'diff_tags':
        src = I.root(op)
        v['fp']['has_positional'] = any(
            isinstance(key, int) for n in enum_nodes(src)
            for key in list(n.__arguments__) + list(n.__argument_tags__)
        ) or any(isinstance(e.get('arg'), int) for e in op['edits'])
        res['violations'].append(v)
        # the heap is unchanged (the new config was never added): keep going
        Mo.roots.pop()
        continue
      res['violations'].append(v)
      return res
    if k in ('list_tags', 'build'):
      bump(probes, k)
      if mret != iret:
        res['violations'].append(V(mode, 'read-mismatch',
                                   f'{desc}: expected {C.short(mret)} got {C.short(iret)}', op))
        return res
      if after_i != before_i:
        res['violations'].append(V(mode, 'read-modified-config',
                                   f'{desc}: ' + '; '.join(C.diff(before_i, after_i)), op))
        return res
      continue
    changing += 1
    if after_i != after_m:
      if k in EDIT_OPS:
        # did the edited node itself go wrong (C03's business) or did the edit
        # leak into something else (ours)?
        ti, tm = I.target(op), Mo.target(op)
        if C.canon(ti, with_tags=False) != C.canon(tm, with_tags=False):
          res['discarded'] = 'c03_territory'
          return res
      clause = ('copy-not-faithful' if k in COPY_OPS else
                'frame-condition' if k in ('set_tagged', 'select_replace', 'select_use') else
                'state-mismatch')
      res['violations'].append(V(mode, clause,
                                 f'after {desc} (model != fiddle, joint canon of '
                                 f'{len(I.roots)} live configs): '
                                 + '; '.join(C.diff(after_m, after_i)), op))
      return res
    if k in COPY_OPS:
      bump(probes, 'copies')
      orig, new, deep = I.pairs[-1]
      if k == 'deepcopy_with' and 'ref' in C.short(op, 10 ** 9):
        deep = False   # the assigned values may legitimately point into the heap
      leaks = identity_leaks(orig, new, deep)
      if leaks:
        res['violations'].append(V(mode, 'identity-leak',
                                   f'after {desc}: ' + '; '.join(leaks[:3]), op))
        return res
      if k in ('json', 'diff_tags'):
        bump(probes, 'transport_' + k)
    if k in TAG_OPS:
      bump(probes, 'tag_edits')
    if k == 'select_use':
      bump(probes, 'kept_selection_used')
    if k in ('set_tagged', 'select_replace', 'select_use'):
      bump(probes, 'tag_broadcasts')
      if after_i != before_i:
        bump(probes, 'tag_broadcast_changed_something')
    if k in EDIT_OPS and len(I.roots) > 1 and I.pairs:
      bump(probes, 'edit_after_copy')
    res['state_hashes'].append(stable_hash(after_m))
  res['nontrivial'] = changing >= 3
  return res


# --------------------------------------------------------------------------
def shrink_candidates(case):
  ops = case['ops']
  for shorter in S.ddmin_candidates(ops):
    if not shorter:
      continue
    c = copy.deepcopy(case)
    c['ops'] = copy.deepcopy(shorter)
    yield c
  for i, op in enumerate(ops):
    for fld in ('v',):
      if isinstance(op.get(fld), dict) and op['op'] != 'new':
        c = copy.deepcopy(case)
        c['ops'][i][fld] = 9000 + i
        yield c
    if op['op'] == 'new':
      nd = op['v']['node']
      for kk in list(nd['kwargs']):
        if kk != 'uid':
          c = copy.deepcopy(case)
          del c['ops'][i]['v']['node']['kwargs'][kk]
          yield c
      if len(nd['args']) > 1:
        c = copy.deepcopy(case)
        c['ops'][i]['v']['node']['args'].pop()
        yield c
    if op.get('n'):
      c = copy.deepcopy(case)
      c['ops'][i]['n'] = 0
      yield c
    if op['op'] == 'diff_tags' and len(op['edits']) > 1:
      for j in range(len(op['edits'])):
        c = copy.deepcopy(case)
        del c['ops'][i]['edits'][j]
        yield c


class Machine:
  name = 'heap'
  properties = ('C07', 'C14')

  def gen(self, world, tier, prop):
    return gen_case(world, tier, prop)

  def run(self, case):
    try:
      return run(case)
    finally:
      from fiddle import history as _h
      _h.set_tracking(True)

  def shrink_candidates(self, case):
    return shrink_candidates(case)

  def size(self, case):
    return len(case['ops'])

  def sample(self, case, res):
    return {'mode': case['mode'], 'ops': case['ops'][:6], 'n_ops': len(case['ops'])}


MACHINE = Machine()
