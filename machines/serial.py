"""Serialization machine (C09).  The JSON document is the one durable artefact
fiddle produces; it is written by one party and read by another.

Arms (separate, so the relaxation of one hides nothing in the other):
  fault-free   dump -> load (in process, and in a second interpreter with a
               different PYTHONHASHSEED) -> canon equal, second dump equal up
               to set order, no stub invoked, every import approved first.
  damaged      the in-process "medium" truncates / flips / splices / retargets
               the document, or the import seam fails; load under a
               restrictive recording policy may raise or return anything, but
               (M1) nothing reaches importlib without prior approval and (M2)
               nothing the policy refused (or never saw) is reachable in the
               result.
  policy-no    an undamaged document, a policy that refuses one symbol the
               document really uses: the load must not return it.

Fault kinds: doc_truncate, doc_flip, doc_splice, doc_retarget, import_fails,
policy_denies, reader_skew.
"""
from __future__ import annotations

import collections
import copy
import importlib
import json
import os
import subprocess
import sys
import types

import fiddle as fdl
from fiddle._src import config as config_lib
from fiddle._src.experimental import serialization

from fsim import canon as C
from fsim import model as M
from fsim import shrink as S
from fsim import stubmod
from fsim import stubs
from fsim.world import World, stable_hash
from machines.build import BUILD_STUBS

SER_FNS = ['n0', 'n1', 'N2', 'N3', 'n6', 'CamelNode', 'camel_node']
NAMES = {'n0': ['x', 'y', 'z'], 'n1': ['y', 'extra'], 'N2': ['x', 'k'],
         'N3': ['x', 'y'], 'n6': ['x', 'y', 'k'], 'CamelNode': ['x'],
         'camel_node': ['x']}
TAGS = ['T0', 'T1', 'U0']
# dotted stdlib modules nothing here ever imports: if one of THEIR parents shows
# up in the import system during a load that the policy refused, something
# imported behind the policy's back
WATCHED_TOPS = ('wsgiref', 'xmlrpc')
EVIL = [['wsgiref.util', 'guess_scheme'], ['xmlrpc.client', 'dumps'],
        ['builtins', 'eval'], ['builtins', 'exec'], ['os', 'system'],
        ['subprocess', 'call'], ['fsim.stubmod', 'denied_fn'],
        ['no_such_module_xyz', 'f'], ['fsim.stubmod', 'no_such_symbol'],
        ['builtins', '__import__'], ['os.path', 'join']]


# --------------------------------------------------------------------------
# value descriptors -> values (impl side only; the oracle is canon equality)
# --------------------------------------------------------------------------
class Mk:

  def __init__(self, fns):
    self.fns = fns
    self.memo = {}

  def __call__(self, d):
    if not isinstance(d, dict):
      return d
    if 'share' in d:
      return self.memo[d['share']]
    out = self._make(d)
    if 'id' in d:
      self.memo[d['id']] = out
    return out

  def _make(self, d):
    if 'int' in d:
      return int(d['int'])
    if 'float' in d:
      return float(d['float'])
    if 'bytes' in d:
      return bytes.fromhex(d['bytes'])
    if 'str' in d:
      return ''.join(chr(c) for c in d['str'])
    if 'enum' in d:
      return stubmod.Color[d['enum']]
    if 'enum2' in d:
      cls, name = d['enum2']
      return getattr(stubmod, cls)[name]
    if 'sub' in d:
      cls, v = d['sub']
      return getattr(stubmod, cls)(v)
    if 'meth' in d:
      obj = stubmod
      for part in d['meth'].split('.'):
        obj = getattr(obj, part)
      return obj
    if 'mcfg' in d:
      obj = stubmod
      for part in d['mcfg'].split('.'):
        obj = getattr(obj, part)
      return fdl.Config(obj, n=4) if 'regular' in d['mcfg'] else fdl.Partial(obj)
    if 'novalue' in d:
      return fdl.NO_VALUE
    if 'const' in d:
      return stubmod.CONST_OBJ
    if 'slice' in d:
      return slice(*[self(e) for e in d['slice']])
    if 'set' in d:
      return set(self(e) for e in d['set'])
    if 'fset' in d:
      return frozenset(self(e) for e in d['fset'])
    if 'list' in d:
      return [self(e) for e in d['list']]
    if 'tuple' in d:
      return tuple(self(e) for e in d['tuple'])
    if 'nt' in d:
      return stubmod.NT(*[self(e) for e in d['nt']])
    if 'kdict' in d:
      return {self(k): self(v) for k, v in d['kdict']}
    if 'ddict' in d:
      return collections.defaultdict(list, {self(k): self(v) for k, v in d['ddict']})
    if 'plain' in d:
      cls_ = stubmod.EqHostile if d.get('eqhostile') else stubmod.Plain
      return cls_(**{k: self(v) for k, v in d['plain']})
    if 'tv' in d:
      kw = {'default': self(d['tv']['value'])} if 'value' in d['tv'] else {}
      return fdl.TaggedValue(tags=[stubmod.TAGS[t] for t in d['tv']['tags']], **kw)
    if 'node' in d:
      nd = d['node']
      cls = {'Config': fdl.Config, 'Partial': fdl.Partial,
             'ArgFactory': fdl.ArgFactory}[nd['btype']]
      cfg = cls(self.fns[nd['fn']], *[self(a) for a in nd['args']],
                **{k: self(v) for k, v in nd['kwargs'].items()})
      for arg, tags in nd.get('tags', []):
        for t in tags:
          fdl.add_tag(cfg, arg, stubmod.TAGS[t])
      for arg in nd.get('untag', []):
        fdl.clear_tags(cfg, arg)   # e.g. a tag that came from an annotation
      if nd.get('swap') and nd['fn'] in ('n0', 'n6'):
        # an edited configuration: its callable was swapped for one that lacks a
        # parameter (values dropped; tags of that parameter stay behind)
        from fiddle._src import mutate_buildable
        try:
          mutate_buildable.update_callable(
              cfg, self.fns['n0b' if nd['fn'] == 'n0' else 'n0'],
              drop_invalid_args=True)
        except NotImplementedError:
          pass    # (positional arguments: not supported by update_callable)
      return cfg
    raise ValueError(f'bad descriptor {d}')


def gen_value(rng, big):
  ids = [0]
  shareable = []
  count = [0]
  uidc = [0]
  limit = 40 if big else 25

  def nid():
    ids[0] += 1
    return ids[0]

  def leaf(hashable_only=False):
    r = rng.random()
    if r < 0.18:
      return rng.randint(-5, 5)
    if r < 0.26:
      return {'int': str(rng.choice([2 ** 63, -2 ** 64 - 1, 10 ** 40, 2 ** 31, 2 ** 53 + 1]))}
    if r < 0.36:
      return {'float': rng.choice(['inf', '-inf', '-0.0', '1e308', '5e-324', '0.1', '1.5', '1e22', '-2.5e-7'])}
    if r < 0.44:
      return rng.choice([True, False, None])
    if r < 0.60:
      n = rng.randint(0, 6)
      pool = [0x41, 0x5c, 0x75, 0x22, 0x27, 0x0a, 0x00, 0xe9, 0x4e2d, 0x1f600,
              0x2028, 0x7f, 0x30, 0x31, 0xff, 0x100, 0xdc80 if rng.random() < 0.1 else 0x42]
      return {'str': [rng.choice(pool) for _ in range(n)]}
    if r < 0.76:
      n = rng.randint(0, 8)
      frag = rng.choice([b'', b'\\u0041', b'\\x41', b'\\U0001f600', b'\\', b'\\\\u00e9',
                         b'\\N{DASH}', b'\xff\xfe', b'\x00', b'\\u4e2d', b'\\u00'])
      raw = bytes(rng.randrange(256) for _ in range(n))
      cut = rng.randint(0, len(raw))
      return {'bytes': (raw[:cut] + frag + raw[cut:]).hex()}
    if r < 0.82:
      return {'enum': rng.choice(['RED', 'GREEN', 'BLUE'])}
    if r < 0.855:
      return {'enum2': rng.choice([['Level', 'LOW'], ['Level', 'HIGH'], ['Mode', 'FAST'],
                                   ['Mode', 'SLOW'], ['Perm', 'R'], ['Perm', 'W']])}
    if r < 0.875:
      return {'sub': rng.choice([['MyInt', 7], ['MyStr', 'seven']])}
    if r < 0.885 and not hashable_only:
      # methods: via the defining class (serialisable), inherited through a
      # subclass or bound to an instance (not importable as such: must be loud)
      m = rng.choice(['Shape.regular', 'Triangle.regular', 'SHAPE_OBJ.describe',
                      'Shape.describe'])
      return {rng.choice(['meth', 'mcfg']): m}
    if r < 0.92 and not hashable_only:
      return {'novalue': 1}
    if r < 0.96 and not hashable_only:
      return {'const': 1}
    return {'tuple': [rng.randint(0, 9), {'str': [0x61 + rng.randint(0, 5)]}]}

  def key():
    r = rng.random()
    if r < 0.5:
      return 'k%d' % rng.randint(0, 6)
    if r < 0.7:
      return rng.randint(-3, 12)
    if r < 0.8:
      return {'enum': rng.choice(['RED', 'GREEN', 'BLUE'])}
    if r < 0.9:
      return {'tuple': [rng.randint(0, 3), 'a']}
    return rng.choice([True, None, 1.5])

  def uniq_keys(n):
    out, seen = [], set()
    for _ in range(n):
      k = key()
      s = json.dumps(k, sort_keys=True)
      # 1 == True == 1.0 as dict keys
      norm = '1' if s in ('1', 'true') else s
      if norm not in seen:
        seen.add(norm)
        out.append(k)
    return out

  def value(depth=0):
    count[0] += 1
    r = rng.random()
    if depth >= 5 or count[0] > limit or r < 0.30:
      return leaf()
    if r < 0.36 and shareable:
      return {'share': rng.choice(shareable)}
    i = nid()
    if r < 0.46:
      d = {'list': [value(depth + 1) for _ in range(rng.randint(0, 3))]}
    elif r < 0.52:
      d = {'tuple': [value(depth + 1) for _ in range(rng.randint(0, 3))]}
    elif r < 0.60:
      d = {'kdict': [[k, value(depth + 1)] for k in uniq_keys(rng.randint(0, 3))]}
    elif r < 0.64:
      d = {'ddict': [[k, value(depth + 1)] for k in uniq_keys(rng.randint(0, 2))]}
    elif r < 0.69:
      d = {rng.choice(['set', 'fset']): _uniq([leaf(True) for _ in range(rng.randint(0, 4))])}
    elif r < 0.72:
      d = {'slice': [rng.choice([None, 1, -2]), rng.choice([None, 5]), rng.choice([None, 2])]}
    elif r < 0.76:
      d = {'nt': [value(depth + 1), value(depth + 1)]}
    elif r < 0.80:
      d = {'plain': [['p', value(depth + 1)], ['q', leaf()]]}
      if rng.random() < 0.3:
        d['eqhostile'] = 1    # (its == / != raise for foreign operands)
    elif r < 0.84:
      t = {'tags': rng.sample(TAGS, rng.randint(1, 2))}
      if rng.random() < 0.6:
        t['value'] = value(depth + 1)
      d = {'tv': t}
    else:
      fn = rng.choice(SER_FNS)
      uidc[0] += 1
      u = uidc[0]
      if fn == 'n1':
        args = [u] + ([value(depth + 1)] if rng.random() < 0.6 else [])
        kwargs = {}
        if len(args) == 2 and rng.random() < 0.5:
          args += [value(depth + 1) for _ in range(rng.randint(1, 2))]
        elif rng.random() < 0.5:
          kwargs['y'] = value(depth + 1)
        if rng.random() < 0.3:
          kwargs['extra'] = value(depth + 1)
      else:
        args, kwargs = [], {'uid': u}
        for nm in NAMES[fn]:
          if rng.random() < 0.5:
            kwargs[nm] = value(depth + 1)
      tags = []
      if rng.random() < 0.4:
        cand = NAMES[fn] + ([0, 1, 3] if fn == 'n1' else [])
        for arg in rng.sample(cand, rng.randint(1, min(2, len(cand)))):
          tags.append([arg, rng.sample(TAGS, rng.randint(1, 2))])
      d = {'node': {'btype': rng.choice(['Config', 'Config', 'Partial', 'ArgFactory']),
                    'fn': fn, 'args': args, 'kwargs': kwargs, 'tags': tags}}
      if fn == 'n6' and rng.random() < 0.5:
        d['node']['untag'] = rng.sample(['x', 'y'], rng.randint(1, 2))
      if fn in ('n0', 'n6') and rng.random() < 0.2:
        d['node']['swap'] = 1
    d['id'] = i
    if not any(k in d for k in ('tuple', 'slice', 'set', 'fset', 'tv')):
      shareable.append(i)
    return d

  return value()


def _uniq(descs):
  out, seen = [], set()
  for d in descs:
    s = json.dumps(d, sort_keys=True)
    norm = {'1': 'one', 'true': 'one', '0': 'zero', 'false': 'zero'}.get(s, s)
    if isinstance(d, dict) and 'float' in d:
      continue   # -0.0 / 0 etc.: set membership is by ==, keep it simple
    if norm not in seen:
      seen.add(norm)
      out.append(d)
  return out


def gen_case(world, tier, prop):
  rng = world.stream('gen')
  frng = world.stream('fault')
  big = tier == 'thorough'
  values = [gen_value(rng, big) for _ in range(rng.randint(2, 6))]
  damages = []
  for vi in range(len(values)):
    for _ in range(frng.randint(0, 3)):
      kind = frng.choice(['truncate', 'flip', 'splice', 'splice', 'retarget',
                          'retarget', 'retarget', 'import_fails'])
      damages.append({'doc': vi, 'kind': kind, 'seed': frng.randrange(10 ** 9),
                      'n': frng.randint(1, 4)})
  denies = [{'doc': vi, 'seed': frng.randrange(10 ** 9),
             'stage': frng.choice(['import', 'value'])}
            for vi in range(len(values)) if frng.random() < 0.5]
  case = {'values': values, 'damages': damages, 'denies': denies,
          'reader': frng.random() < (0.5 if big else 0.12),
          'reader_hashseed': str(frng.choice([5, 17, 123456, 999]))}
  crng = world.stream('conc')
  if crng.random() < 0.1:
    case['migrate'] = True
  if crng.random() < 0.3:
    case['refused_constants'] = True
  if crng.random() < 0.35:
    # two loads under DIFFERENT policies overlap in two threads
    case['conc'] = {'a': crng.randrange(len(values)), 'b': crng.randrange(len(values)),
                    'seed': crng.randrange(10 ** 9),
                    'stage': crng.choice(['import', 'value']),
                    'policy': crng.choice([{'kind': 'random', 'p': 0.05},
                                           {'kind': 'random', 'p': 0.3},
                                           {'kind': 'pause', 'q': 0.6},
                                           {'kind': 'pct', 'd': 3, 'horizon': 4000},
                                           {'kind': 'hot', 'p': 0.01, 'p_hot': 0.15,
                                            'hold': 1000, 'novel': 2}]),
                    'sched_seed': world.seed}
    if crng.random() < 0.4:
      case['conc']['import_race'] = True
  return case


# --------------------------------------------------------------------------
# recording policy + import seam
# --------------------------------------------------------------------------
class RecordingPolicy(serialization.PyrefPolicy):

  def __init__(self, restrictive, deny=None, deny_stage='value'):
    self.restrictive = restrictive
    self.deny = tuple(deny) if deny else None   # (module, symbol) to refuse
    self.deny_stage = deny_stage
    self.approved_imports = set()   # (module, symbol) answered True
    self.asked_imports = []
    self.approved_values = {}       # id -> value answered True
    self.refused_values = {}
    self.default = serialization.DefaultPyrefPolicy()
    self.sched = None   # concurrent arm: the user's callbacks are pause points

  def allows_import(self, module, symbol):
    if self.sched is not None:
      self.sched.pause(1)
    ok = True
    if self.deny and self.deny_stage == 'import' and (module, symbol) == self.deny:
      ok = False
    if self.restrictive:
      top = module.split('.')[0]
      if top not in ('fsim', 'fiddle', 'builtins', 'collections'):
        ok = False
    self.asked_imports.append((module, symbol, ok))
    if ok:
      self.approved_imports.add((module, symbol))
    return ok

  def allows_value(self, value):
    if self.sched is not None:
      self.sched.pause(2)
    ok = self.default.allows_value(value)
    if self.deny and self.deny_stage == 'value':
      try:
        target = _resolve(*self.deny)
      except Exception:  # pylint: disable=broad-except
        target = None
      if target is not None and (value is target or (
          isinstance(value, types.MethodType) and value == target)):
        ok = False
    if self.restrictive:
      if value is stubmod.denied_fn or value in (eval, exec, __import__):
        ok = False
      mod = getattr(value, '__module__', None)
      if isinstance(mod, str) and mod.split('.')[0] in ('os', 'subprocess', 'posix', 'posixpath'):
        ok = False
    (self.approved_values if ok else self.refused_values)[id(value)] = value
    return ok


def _resolve(module, symbol):
  v = importlib.import_module(module)
  for part in symbol.split('.'):
    v = getattr(v, part)
  return v


class ImportWatch:
  """sys.meta_path observer: records every import the interpreter attempts for
  the watched packages (whoever asks for it, through whichever API)."""

  def __init__(self):
    self.seen = []

  def find_spec(self, fullname, path=None, target=None):
    if fullname.split('.')[0] in WATCHED_TOPS:
      self.seen.append(fullname)
    return None

  def __enter__(self):
    sys.meta_path.insert(0, self)
    return self

  def __exit__(self, *exc):
    try:
      sys.meta_path.remove(self)
    except ValueError:
      pass


class ImportShim:
  """Stands in for the `importlib` name inside serialization.py."""

  def __init__(self, policy, fail=None):
    self.policy = policy
    self.fail = fail or {}       # module -> 'missing' | 'noattr'
    self.calls = []
    self.unapproved = []
    self.fired = 0

  def __getattr__(self, name):
    # everything else the real module offers (importlib.util, ...) stays usable
    return getattr(importlib, name)

  def import_module(self, name):
    self.calls.append(name)
    from fiddle._src import special_overrides
    ok = False
    for (m, s) in self.policy.approved_imports:
      if m == name or special_overrides.maybe_get_module_override_for_migrated_serialization_symbol(m, s) == name:
        ok = True
        break
    if not ok:
      self.unapproved.append(name)
    mode = self.fail.get(name)
    if mode == 'missing':
      self.fired += 1
      raise ModuleNotFoundError(f"No module named {name!r} (injected)")
    if mode == 'noattr':
      self.fired += 1
      return types.ModuleType(name)
    return importlib.import_module(name)


def symbols_reachable(root):
  """Python symbols (functions, classes, methods, modules, enum members) that
  are reachable as VALUES in a deserialized result."""
  out, seen = [], set()

  def go(v, depth=0):
    if id(v) in seen or depth > 60:
      return
    seen.add(id(v))
    if isinstance(v, config_lib.Buildable):
      out.append(v.__fn_or_cls__)
      for ts in v.__argument_tags__.values():
        out.extend(ts)
      for x in v.__arguments__.values():
        go(x, depth + 1)
      return
    if isinstance(v, (list, tuple, set, frozenset)):
      for x in v:
        go(x, depth + 1)
      return
    if isinstance(v, dict):
      if isinstance(v, collections.defaultdict) and v.default_factory is not None:
        out.append(v.default_factory)
      for k, x in v.items():
        go(k, depth + 1)
        go(x, depth + 1)
      return
    if isinstance(v, (type, types.FunctionType, types.BuiltinFunctionType,
                      types.MethodType, types.ModuleType)):
      out.append(v)
      return
    import enum as _e
    if isinstance(v, _e.Enum):
      out.append(v)
      return
    if getattr(v, '_fsim_plain', False):
      for x in v.__dict__.values():
        go(x, depth + 1)
  go(root)
  import enum
  kinds = (type, types.FunctionType, types.BuiltinFunctionType,
           types.MethodType, types.ModuleType, enum.Enum)
  return [s for s in out if isinstance(s, kinds)]


# --------------------------------------------------------------------------
# the medium
# --------------------------------------------------------------------------
def pyref_sites(tree, acc=None, path=()):
  if acc is None:
    acc = []
  if isinstance(tree, dict):
    if tree.get('type') == 'pyref' and 'module' in tree and 'name' in tree:
      acc.append(path)
    for k, v in tree.items():
      pyref_sites(v, acc, path + (k,))
  elif isinstance(tree, list):
    for i, v in enumerate(tree):
      pyref_sites(v, acc, path + (i,))
  return acc


def subtree_sites(tree, acc=None, path=()):
  if acc is None:
    acc = []
  if isinstance(tree, (dict, list)) and path:
    acc.append(path)
  if isinstance(tree, dict):
    for k, v in tree.items():
      subtree_sites(v, acc, path + (k,))
  elif isinstance(tree, list):
    for i, v in enumerate(tree):
      subtree_sites(v, acc, path + (i,))
  return acc


def damage(doc: str, dmg, faults, fail_map):
  """Applies one damage to the document text; returns new text."""
  import random
  rng = random.Random(dmg['seed'])
  kind = dmg['kind']
  if kind == 'truncate':
    faults['doc_truncate'] = faults.get('doc_truncate', 0) + 1
    return doc[:rng.randrange(max(1, len(doc)))]
  if kind == 'flip':
    b = bytearray(doc.encode('utf-8'))
    if not b:
      return doc
    for _ in range(dmg['n']):
      i = rng.randrange(len(b))
      b[i] ^= 1 << rng.randrange(7)
    faults['doc_flip'] = faults.get('doc_flip', 0) + 1
    return b.decode('utf-8', errors='replace')
  try:
    tree = json.loads(doc)
  except ValueError:
    return doc
  if kind == 'splice':
    sites = subtree_sites(tree)
    if len(sites) >= 2:
      a, b = rng.choice(sites), rng.choice(sites)
      va, vb = copy.deepcopy(S.get_path(tree, a)), copy.deepcopy(S.get_path(tree, b))
      mode = rng.choice(['dup', 'swap'])
      _set(tree, a, vb)
      if mode == 'swap' and a[:len(b)] != b and b[:len(a)] != a:
        _set(tree, b, va)
      faults['doc_splice'] = faults.get('doc_splice', 0) + 1
  elif kind == 'retarget':
    sites = pyref_sites(tree)
    if sites:
      for _ in range(dmg['n']):
        site = rng.choice(sites)
        mod, name = rng.choice(EVIL)
        node = S.get_path(tree, site)
        node['module'], node['name'] = mod, name
      faults['doc_retarget'] = faults.get('doc_retarget', 0) + 1
  elif kind == 'import_fails':
    sites = pyref_sites(tree)
    if sites:
      node = S.get_path(tree, rng.choice(sites))
      fail_map[node['module']] = rng.choice(['missing', 'noattr'])
  return json.dumps(tree)


def _set(tree, path, value):
  tgt = tree
  for p in path[:-1]:
    tgt = tgt[p]
  tgt[path[-1]] = value


def normalise_doc(tree):
  """Canonical, name-free form of a document: references are inlined (numbered
  by first visit outside sets, so sharing stays visible), and the items of set /
  frozenset nodes are sorted - object names and set order both follow the hash
  order of the writer and are not part of what the property pins down."""
  if not isinstance(tree, dict) or 'root' not in tree:
    return tree
  objs = tree.get('objects', {})
  numbering = {}

  def is_set_node(n):
    t = n.get('type')
    return (isinstance(t, dict) and t.get('type') == 'pyref'
            and t.get('module') == 'builtins'
            and t.get('name') in ('set', 'frozenset') and 'items' in n)

  def go(n, in_set):
    if isinstance(n, list):
      return [go(x, in_set) for x in n]
    if not isinstance(n, dict):
      return n
    if n.get('type') == 'ref' and 'key' in n:
      key = n['key']
      if in_set:
        return go(objs.get(key), True)
      if key in numbering:
        return {'ref#': numbering[key]}
      numbering[key] = len(numbering)
      num = numbering[key]
      return {'obj#': num, 'v': go(objs.get(key), False)}
    if is_set_node(n):
      items = sorted((go(i[1], True) for i in n['items']),
                     key=lambda x: json.dumps(x, sort_keys=True))
      out = {k: go(v, in_set) for k, v in n.items() if k != 'items'}
      out['items'] = items
      return out
    return {k: go(v, in_set) for k, v in n.items()}

  return {'root': go(tree['root'], False), 'version': tree.get('version')}


# --------------------------------------------------------------------------
# execution
# --------------------------------------------------------------------------
def V(clause, msg, **extra):
  fp = {'property': 'C09', 'clause': clause}
  fp.update(extra)
  return {'fp': fp, 'msg': msg}


def leaf_kinds(d, acc):
  if isinstance(d, dict):
    for k in ('bytes', 'str', 'float', 'int', 'enum', 'enum2', 'sub', 'meth', 'mcfg', 'set', 'fset', 'slice',
              'nt', 'ddict', 'kdict', 'plain', 'tv', 'novalue', 'const', 'node',
              'share'):
      if k in d:
        acc.add(k)
    for v in d.values():
      leaf_kinds(v, acc)
  elif isinstance(d, list):
    for v in d:
      leaf_kinds(v, acc)
  return acc


def run(case):
  rec = stubs.reset()
  fns = stubs.install(BUILD_STUBS)
  res = {'violations': [], 'faults': {}, 'probes': {}, 'steps': 0,
         'state_hashes': [], 'nontrivial': False}
  faults, probes, viols = res['faults'], res['probes'], res['violations']

  def bump(d, k, n=1):
    d[k] = d.get(k, 0) + n

  if case.get('refused_constants'):
    # history: registrations that are REFUSED (plain primitives need none)
    for sym in ('PRIM_INT', 'PRIM_STR'):
      try:
        serialization.register_constant('fsim.stubmod', sym, compare_by_identity=False)
      except ValueError:
        bump(faults, 'refused_registration')
      else:
        raise AssertionError('harness: registering a primitive was expected to be refused')
  docs = {}
  originals = {}
  from fiddle._src.absl_flags import utils as _flag_utils
  zser = _flag_utils.ZlibJSONSerializer()
  real_importlib = serialization.importlib
  try:
    # ---- fault-free arm -------------------------------------------------
    for vi, vd in enumerate(case['values']):
      res['steps'] += 1
      mk = Mk(fns)
      value = mk(vd)
      kinds = sorted(leaf_kinds(vd, set()))
      want = C.canon(value)
      res['state_hashes'].append(stable_hash(want))
      pol = RecordingPolicy(restrictive=False)
      try:
        doc = serialization.dump_json(value, pyref_policy=pol)
      except Exception as e:  # pylint: disable=broad-except
        bump(probes, 'dump_raised')   # "lossless or loud": loud is allowed
        continue
      if C.canon(value) != want:
        viols.append(V('dump-modified-input', f'value #{vi}: dump_json changed its input'))
        return res
      try:
        tree = json.loads(doc)
      except ValueError as e:
        viols.append(V('invalid-json', f'value #{vi}: dump_json output is not JSON: {e}'))
        return res
      docs[vi], originals[vi] = doc, want
      n_log = len(rec.log)
      pol = RecordingPolicy(restrictive=False)
      shim = ImportShim(pol)
      serialization.importlib = shim
      try:
        back = serialization.load_json(doc, pyref_policy=pol)
      except Exception as e:  # pylint: disable=broad-except
        viols.append(V('load-raised',
                       f'value #{vi} (kinds {kinds}): load_json(dump_json(v)) raised '
                       f'{type(e).__name__}: {C.norm_text(str(e))[:300]}'))
        return res
      finally:
        serialization.importlib = real_importlib
      bump(probes, 'round_trips')
      got = C.canon(back)
      if got != want:
        viols.append(V('round-trip-differs',
                       f'value #{vi} (kinds {kinds}): ' + '; '.join(C.diff(want, got)),
                       kinds=','.join(k for k in kinds if k in ('bytes', 'str', 'float', 'int'))))
        return res
      if len(rec.log) != n_log:
        viols.append(V('callable-invoked',
                       f'value #{vi}: deserialization invoked {len(rec.log) - n_log} '
                       'configured callable(s)'))
        return res
      if shim.unapproved:
        viols.append(V('import-before-approval',
                       f'value #{vi}: import_module({shim.unapproved[0]!r}) without a '
                       'prior allows_import -> True'))
        return res
      bad = [s for s in symbols_reachable(back) if id(s) not in pol.approved_values
             and not any(s == a for a in pol.approved_values.values()
                         if isinstance(s, types.MethodType))]
      if bad:
        viols.append(V('symbol-not-approved',
                       f'value #{vi}: {C.norm_text(repr(bad[0]))[:100]} is in the result '
                       'but allows_value never approved it'))
        return res
      # the same document through the flag transport (zlib + base64)
      if vi % 2 == 0:
        from fiddle._src.absl_flags import utils as flag_utils
        z = zser     # ONE serializer object for the whole run
        try:
          packed = z.serialize(value)
          back_z = z.deserialize(packed)
        except Exception as e:  # pylint: disable=broad-except
          viols.append(V('zlib-transport-raised',
                         f'value #{vi}: {type(e).__name__}: {C.norm_text(str(e))[:200]}'))
          return res
        if C.canon(back_z) != want:
          viols.append(V('zlib-transport-differs',
                         f'value #{vi}: ' + '; '.join(C.diff(want, C.canon(back_z)))))
          return res
        bump(probes, 'zlib_round_trips')
        # second use of the same serializer after an edit that `==` cannot see
        # (a tag): what it writes now must carry the edit
        node = next((v_ for v_, _ in fdl.daglish.iterate(value)
                     if isinstance(v_, fdl.Buildable) and not isinstance(v_, type(fdl.TaggedValue([stubmod.TAGS['U0']], 0)))
                     and any(isinstance(k_, str) for k_ in v_.__arguments__)), None)
        if node is not None:
          name_ = next(k_ for k_ in node.__arguments__ if isinstance(k_, str))
          extra = next((t_ for t_ in ('U0', 'T0', 'T1')
                        if stubmod.TAGS[t_] not in node.__argument_tags__.get(name_, ())), None)
          if extra is not None:
            fdl.add_tag(node, name_, stubmod.TAGS[extra])
            try:
              want2 = C.canon(value)
              back2 = z.deserialize(z.serialize(value))
              if C.canon(back2) != want2:
                viols.append(V('zlib-transport-differs',
                               f'value #{vi}: second serialize() of the same serializer '
                               'after a tag was added: ' + '; '.join(C.diff(want2, C.canon(back2)))))
                return res
            finally:
              fdl.remove_tag(node, name_, stubmod.TAGS[extra])
            bump(probes, 'zlib_second_use_after_invisible_edit')
      try:
        doc2 = serialization.dump_json(back)
      except Exception as e:  # pylint: disable=broad-except
        viols.append(V('second-dump-raised', f'value #{vi}: {type(e).__name__}: {e}'))
        return res
      if normalise_doc(json.loads(doc2)) != normalise_doc(tree):
        viols.append(V('second-dump-differs',
                       f'value #{vi} (kinds {kinds}): serializing the reconstruction '
                       'gives a different document'))
        return res
    # ---- reader in a second interpreter, other hash seed -----------------
    if case.get('reader') and docs:
      out = run_reader(docs, case['reader_hashseed'])
      bump(faults, 'reader_skew')
      for vi, r in out.items():
        vi = int(vi)
        if 'error' in r:
          viols.append(V('reader-load-raised',
                         f'value #{vi}: a second interpreter (PYTHONHASHSEED='
                         f'{case["reader_hashseed"]}) failed to load: {r["error"][:300]}'))
          return res
        if r['canon'] != json.loads(json.dumps(originals[vi])):
          viols.append(V('reader-differs',
                         f'value #{vi}: second interpreter reconstructs a different '
                         'value: ' + '; '.join(C.diff(json.loads(json.dumps(originals[vi])), r['canon']))))
          return res
        if normalise_doc(json.loads(r['redump'])) != normalise_doc(json.loads(docs[vi])):
          viols.append(V('reader-redump-differs',
                         f'value #{vi}: second interpreter re-serializes differently'))
          return res
        if r['invoked']:
          viols.append(V('callable-invoked', f'value #{vi}: reader invoked callables'))
          return res
        bump(probes, 'cross_process_reads')
    # ---- policy says no (undamaged document) -----------------------------
    for dn in case['denies']:
      doc = docs.get(dn['doc'])
      if doc is None:
        continue
      sites = pyref_sites(json.loads(doc))
      if not sites:
        continue
      import random
      r = random.Random(dn['seed'])
      node = S.get_path(json.loads(doc), r.choice(sites))
      target = (node['module'], node['name'])
      pol = RecordingPolicy(restrictive=False, deny=target, deny_stage=dn['stage'])
      shim = ImportShim(pol)
      serialization.importlib = shim
      try:
        back = serialization.load_json(doc, pyref_policy=pol)
        raised = None
      except Exception as e:  # pylint: disable=broad-except
        back, raised = None, e
      finally:
        serialization.importlib = real_importlib
      bump(faults, 'policy_denies')
      v = check_policy_monitors(pol, shim, back, raised,
                                f'doc #{dn["doc"]} with policy refusing {target} at {dn["stage"]} stage',
                                arm='policy-no')
      if v:
        viols.append(v)
        return res
      if raised is None:
        try:
          denied = _resolve(*target)
        except Exception:  # pylint: disable=broad-except
          denied = None
        if denied is not None and any(s is denied or (isinstance(s, types.MethodType) and s == denied)
                                      for s in symbols_reachable(back)):
          viols.append(V('denied-symbol-returned',
                         f'policy refused {target} ({dn["stage"]} stage) but the loaded '
                         'value contains it', arm='policy-no'))
          return res
    # ---- two loads under different policies overlap in two threads --------
    conc = case.get('conc')
    if conc and conc['a'] in docs and conc['b'] in docs:
      v = concurrent_loads(conc, docs[conc['a']], docs[conc['b']], res, real_importlib)
      if v:
        viols.append(v)
        return res
    if conc and conc.get('import_race'):
      v = import_race(conc, res, real_importlib)
      if v:
        viols.append(v)
        return res
    # ---- a symbol is migrated between two dumps of the same value -----------
    if case.get('migrate'):
      v = migration_arm(res)
      if v:
        viols.append(v)
        return res
    # ---- damaged documents ------------------------------------------------
    by_doc = {}
    for dmg in case['damages']:
      by_doc.setdefault(dmg['doc'], []).append(dmg)
    for vi, dmgs in sorted(by_doc.items()):
      doc = docs.get(vi)
      if doc is None:
        continue
      fail_map = {}
      for dmg in dmgs[:4]:
        doc = damage(doc, dmg, faults, fail_map)
      pol = RecordingPolicy(restrictive=True)
      shim = ImportShim(pol, fail=fail_map)
      serialization.importlib = shim
      via_zlib = (dmgs[0]['seed'] % 3 == 0)
      watch = ImportWatch()
      watch.__enter__()
      try:
        if via_zlib:
          # the flag transport: the (damaged) document packed, then the packed
          # text damaged as well (stripped padding / flipped character)
          import base64, zlib, random as _r
          rr = _r.Random(dmgs[0]['seed'])
          packed = base64.urlsafe_b64encode(zlib.compress(doc.encode())).decode('ascii')
          how = rr.choice(['strip_padding', 'strip_padding', 'flip', 'none'])
          if how == 'strip_padding':
            packed = packed.rstrip('=')
          elif how == 'flip' and packed:
            i = rr.randrange(len(packed))
            packed = packed[:i] + rr.choice('ABCxyz019-_') + packed[i + 1:]
          from fiddle._src.absl_flags import utils as flag_utils
          bump(faults, 'doc_zlib_' + how)
          back = flag_utils.ZlibJSONSerializer().deserialize(packed, pyref_policy=pol)
        else:
          back = serialization.load_json(doc, pyref_policy=pol)
        raised = None
      except BaseException as e:  # pylint: disable=broad-except
        if isinstance(e, (KeyboardInterrupt, SystemExit)):
          raise
        back, raised = None, e
      finally:
        serialization.importlib = real_importlib
        watch.__exit__()
      if watch.seen:
        # the restrictive policy never approves these packages
        viols.append(V('import-behind-policy',
                       f'doc #{vi} after {[d["kind"] for d in dmgs[:4]]}: the import '
                       f'system was asked for {watch.seen[:3]} although the policy '
                       'refused that module', arm='damaged'))
        return res
      if shim.fired:
        bump(faults, 'import_fails', shim.fired)
      bump(probes, 'damaged_loads')
      if raised is None:
        bump(probes, 'damaged_loads_returned')
      if pol.refused_values or any(not ok for _, _, ok in pol.asked_imports):
        bump(probes, 'policy_refusals_under_damage')
      v = check_policy_monitors(pol, shim, back, raised,
                                f'doc #{vi} after {[d["kind"] for d in dmgs[:4]]}', arm='damaged')
      if v:
        viols.append(v)
        return res
  finally:
    serialization.importlib = real_importlib
  res['nontrivial'] = bool(docs)
  return res


def migration_arm(res):
  """dump; register "fsim.stubmod.moved_fn now lives in fsim.stubmod_new" while
  a stand-in keeps the old name; dump the SAME value again: lossless or loud."""
  from fiddle._src import special_overrides
  probes = res['probes']
  value = [fdl.Config(stubmod.moved_fn, uid=5), {'k': stubmod.moved_fn}]
  want = C.canon(value)
  doc1 = serialization.dump_json(value)
  if C.canon(serialization.load_json(doc1)) != want:
    return V('round-trip-differs', 'before the migration: ' + '; '.join(
        C.diff(want, C.canon(serialization.load_json(doc1)))), arm='migrated')
  special_overrides.register_special_override(
      'fsim.stubmod', special_overrides.SpecialOverrides(
          module_name='fsim.stubmod',
          migrated_symbol_destination_modules={'moved_fn': 'fsim.stubmod_new'}))
  probes['symbol_migrated_between_dumps'] = probes.get('symbol_migrated_between_dumps', 0) + 1
  try:
    doc2 = serialization.dump_json(value)
  except Exception:  # pylint: disable=broad-except
    probes['migrated_symbol_dump_refused'] = probes.get('migrated_symbol_dump_refused', 0) + 1
    return None     # loud: fine
  try:
    back = serialization.load_json(doc2)
  except Exception as e:  # pylint: disable=broad-except
    return V('round-trip-raised', f'after the migration, a document that dump_json '
             f'wrote does not load: {type(e).__name__}: {C.norm_text(str(e))[:200]}',
             arm='migrated')
  if C.canon(back) != want:
    return V('round-trip-differs',
             'after the migration dump_json wrote the stand-in under the old name, '
             'which loads as the migrated symbol: '
             + '; '.join(C.diff(want, C.canon(back))), arm='migrated')
  return None


class ThreadShim:
  """The import seam while several simulated threads load: each thread's imports
  are checked against that thread's own policy.  The per-module import lock is
  modelled by a schedulable lock: a thread that asks for a module another
  simulated thread is still importing WAITS (as it would on the interpreter's
  own import lock) instead of wedging the baton."""

  def __init__(self, shims, sched):
    self.shims, self.sched = shims, sched
    self.locks = {}

  def __getattr__(self, name):
    return getattr(importlib, name)

  def import_module(self, name):
    from fsim import simlock
    lk = self.locks.get(name)
    if lk is None:
      lk = self.locks[name] = simlock.SimLock(True)
    with lk:
      return self.shims[self.sched.thread_id()].import_module(name)


def import_race(conc, res, real_importlib):
  """Two threads load documents naming a symbol of a module NOBODY has imported
  yet; the module's body takes a while (pause points) and rebinds the name at
  its end.  Both loads must come back with the module's final attribute."""
  from fsim import sched as sched_lib
  from fsim.world import World
  from machines.threads import FIDDLE_SRC
  import fsim
  name = 'fsim.lazy_k'
  sys.modules.pop(name, None)
  if hasattr(fsim, 'lazy_k'):
    delattr(fsim, 'lazy_k')
  tree = json.loads(serialization.dump_json(
      [fdl.Config(stubmod.lazy_proto, uid=7), stubmod.lazy_proto]))
  for path in pyref_sites(tree):
    node = S.get_path(tree, path)
    if node['name'] == 'lazy_proto':
      node['module'], node['name'] = name, 'make'
  doc = json.dumps(tree)
  pols = [RecordingPolicy(restrictive=False), RecordingPolicy(restrictive=False)]
  rng = World(conc['sched_seed']).stream('sched')
  sc = sched_lib.Sched(sched_lib.make_policy(conc['policy'], rng, 2), [FIDDLE_SRC],
                       step_cap=2_000_000)
  shims = [ImportShim(p) for p in pols]
  out = [None, None]

  def loader(t):
    def body():
      try:
        out[t] = ('ok', serialization.load_json(doc, pyref_policy=pols[t]))
      except Exception as e:  # pylint: disable=broad-except
        out[t] = ('raised', e)
    return body
  for p_ in pols:
    p_.sched = sc
  serialization.importlib = ThreadShim(shims, sc)
  try:
    sc.run([loader(0), loader(1)])
  finally:
    serialization.importlib = real_importlib
    for p_ in pols:
      p_.sched = None
  res['faults']['preempt'] = res['faults'].get('preempt', 0) + sc.switches
  res['faults']['slow_import'] = res['faults'].get('slow_import', 0) + 1
  res['steps'] += sc.steps
  final = getattr(sys.modules.get(name), 'make', None)
  for t in (0, 1):
    kind, val = out[t]
    what = f'thread {t} of two loads racing with the first import of {name}'
    if kind != 'ok':
      return V('concurrent-load-raised', f'{what}: {type(val).__name__}: '
               + C.norm_text(str(val))[:200], arm='import-race')
    got = [fdl.get_callable(val[0]), val[1]]
    if any(g is not final for g in got):
      return V('round-trip-differs',
               f'{what}: the loaded symbol is not the attribute the module ends up '
               f'with (it was read from the half-initialised module): '
               f'{[getattr(g, "__qualname__", g) for g in got]}', arm='import-race')
  return None


def concurrent_loads(conc, doc_a, doc_b, res, real_importlib):
  """Thread 0 loads doc_a under a policy that refuses one of its symbols (and is
  otherwise permissive); thread 1 loads doc_b under an allow-all policy.  Each
  load must be gated by ITS policy whatever the interleaving."""
  import random
  from fsim import sched as sched_lib
  from fsim.world import World
  from machines.threads import FIDDLE_SRC
  sites = pyref_sites(json.loads(doc_a))
  if not sites:
    return None
  r = random.Random(conc['seed'])
  node = S.get_path(json.loads(doc_a), r.choice(sites))
  target = (node['module'], node['name'])
  pols = [RecordingPolicy(restrictive=False, deny=target, deny_stage=conc['stage']),
          RecordingPolicy(restrictive=False)]
  rng = World(conc['sched_seed']).stream('sched')
  sc = sched_lib.Sched(sched_lib.make_policy(conc['policy'], rng, 2), [FIDDLE_SRC],
                       step_cap=2_000_000)
  shims = [ImportShim(p) for p in pols]
  out = [None, None]

  def loader(t, doc):
    def body():
      try:
        out[t] = ('ok', serialization.load_json(doc, pyref_policy=pols[t]))
      except Exception as e:  # pylint: disable=broad-except
        out[t] = ('raised', e)
    return body
  for p_ in pols:
    p_.sched = sc
  serialization.importlib = ThreadShim(shims, sc)
  try:
    sc.run([loader(0, doc_a), loader(1, doc_b)])
  finally:
    serialization.importlib = real_importlib
    for p_ in pols:
      p_.sched = None
  res['faults']['preempt'] = res['faults'].get('preempt', 0) + sc.switches
  res['probes']['concurrent_load_pairs'] = res['probes'].get('concurrent_load_pairs', 0) + 1
  res['steps'] += sc.steps
  res['sched_hash'] = sc.sched_hash()
  for t in (0, 1):
    kind, val = out[t]
    back, raised = (val, None) if kind == 'ok' else (None, val)
    what = (f'thread {t} of two overlapping loads (policy of thread 0 refuses {target} '
            f'at {conc["stage"]} stage, thread 1 allows all)')
    v = check_policy_monitors(pols[t], shims[t], back, raised, what, arm='concurrent')
    if v:
      return v
    if t == 1 and raised is not None:
      return V('concurrent-load-raised',
               f'{what}: the allow-all load raised {type(raised).__name__}: '
               + C.norm_text(str(raised))[:200], arm='concurrent')
    if t == 0 and raised is None:
      try:
        denied = _resolve(*target)
      except Exception:  # pylint: disable=broad-except
        denied = None
      if denied is not None and any(
          s_ is denied or (isinstance(s_, types.MethodType) and s_ == denied)
          for s_ in symbols_reachable(back)):
        return V('denied-symbol-returned',
                 f'{what}: the loaded value of thread 0 contains the refused symbol',
                 arm='concurrent')
  return None


def check_policy_monitors(pol, shim, back, raised, what, arm):
  if shim.unapproved:
    return V('import-before-approval',
             f'{what}: import_module({shim.unapproved[0]!r}) reached the import seam '
             'without a prior allows_import -> True', arm=arm)
  if raised is None:
    for s in symbols_reachable(back):
      if id(s) in pol.refused_values:
        return V('refused-symbol-returned',
                 f'{what}: {C.norm_text(repr(s))[:100]} was refused by allows_value '
                 'but is reachable in the loaded value', arm=arm)
      if id(s) not in pol.approved_values and not (
          isinstance(s, types.MethodType)
          and any(s == a for a in pol.approved_values.values())):
        return V('symbol-not-approved',
                 f'{what}: {C.norm_text(repr(s))[:100]} is reachable in the loaded '
                 'value but was never approved by allows_value', arm=arm)
  return None


def run_reader(docs, hashseed):
  job = json.dumps({'docs': docs})
  env = dict(os.environ)
  env['PYTHONHASHSEED'] = hashseed
  p = subprocess.run([sys.executable, '-m', 'fsim.reader'], input=job.encode(),
                     capture_output=True, env=env, timeout=120,
                     cwd=os.path.dirname(os.path.dirname(os.path.abspath(__file__))))
  if p.returncode != 0:
    raise RuntimeError('reader process failed: ' + p.stderr.decode(errors='replace')[-2000:])
  return json.loads(p.stdout)


# --------------------------------------------------------------------------
def shrink_candidates(case):
  n = len(case['values'])
  for i in range(n - 1, -1, -1):
    if n == 1:
      break
    c = copy.deepcopy(case)
    del c['values'][i]
    c['damages'] = [dict(d, doc=d['doc'] - (1 if d['doc'] > i else 0))
                    for d in c['damages'] if d['doc'] != i]
    c['denies'] = [dict(d, doc=d['doc'] - (1 if d['doc'] > i else 0))
                   for d in c['denies'] if d['doc'] != i]
    yield c
  for i in range(len(case['damages']) - 1, -1, -1):
    c = copy.deepcopy(case)
    del c['damages'][i]
    yield c
  for i in range(len(case['denies']) - 1, -1, -1):
    c = copy.deepcopy(case)
    del c['denies'][i]
    yield c
  if case.get('reader'):
    c = copy.deepcopy(case)
    c['reader'] = False
    yield c
  for i, v in enumerate(case['values']):
    for sub in _prune_value(v):
      c = copy.deepcopy(case)
      c['values'][i] = sub
      yield c


def _prune_value(d):
  if not isinstance(d, dict):
    return
  for key in ('list', 'tuple', 'nt', 'set', 'fset'):
    if key in d:
      for i, e in enumerate(d[key]):
        yield e
        if key != 'nt':
          c = copy.deepcopy(d)
          del c[key][i]
          yield c
        for sub in _prune_value(e):
          c = copy.deepcopy(d)
          c[key][i] = sub
          yield c
  for key in ('kdict', 'ddict', 'plain'):
    if key in d:
      for i, (k, e) in enumerate(d[key]):
        yield e
        c = copy.deepcopy(d)
        del c[key][i]
        yield c
        for sub in _prune_value(e):
          c = copy.deepcopy(d)
          c[key][i][1] = sub
          yield c
  if 'node' in d:
    nd = d['node']
    for k, e in nd['kwargs'].items():
      if k == 'uid':
        continue
      yield e
      c = copy.deepcopy(d)
      del c['node']['kwargs'][k]
      c['node']['tags'] = [t for t in c['node'].get('tags', []) if t[0] != k]
      yield c
      for sub in _prune_value(e):
        c = copy.deepcopy(d)
        c['node']['kwargs'][k] = sub
        yield c
    if nd.get('tags'):
      c = copy.deepcopy(d)
      c['node']['tags'] = []
      yield c
  if 'tv' in d and 'value' in d['tv']:
    yield d['tv']['value']
  if 'bytes' in d and len(d['bytes']) > 2:
    h = d['bytes']
    yield {'bytes': h[:len(h) // 4 * 2]}
    yield {'bytes': h[len(h) // 4 * 2:]}
  if 'str' in d and len(d['str']) > 1:
    yield {'str': d['str'][:len(d['str']) // 2]}
    yield {'str': d['str'][len(d['str']) // 2:]}


class Machine:
  name = 'serial'
  properties = ('C09',)

  def gen(self, world, tier, prop):
    return gen_case(world, tier, prop)

  def run(self, case):
    try:
      return run(case)
    except KeyError:
      if case.get('_shrunk'):
        return {'violations': [], 'discarded': 'dangling'}
      raise

  def shrink_candidates(self, case):
    for c in shrink_candidates(case):
      c['_shrunk'] = True
      yield c

  def size(self, case):
    return len(json.dumps(case['values'])) // 20 + len(case['damages'])

  def sample(self, case, res):
    return {'values': [json.dumps(v)[:300] for v in case['values'][:2]],
            'damages': case['damages'][:4], 'denies': case['denies'][:2],
            'reader': case['reader']}


MACHINE = Machine()
