#!/bin/bash
# Offline setup: nothing to build; verify the interpreter sees /repo's fiddle.
set -e
cd "$(dirname "$0")"
mkdir -p evidence replays .cache
/venv/bin/python - <<'PY'
import fiddle, os, sys
p = os.path.realpath(os.path.dirname(fiddle.__file__))
assert p == '/repo/fiddle', f'fiddle imported from {p}, expected /repo/fiddle'
print('fiddle from', p, 'python', sys.version.split()[0])
PY
if setarch x86_64 -R true 2>/dev/null; then echo "setarch -R: ok"; else echo "setarch -R: unavailable (ASLR stays on; not required)"; fi
