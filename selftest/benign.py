#!/venv/bin/python
"""False-alarm self-test on behaviour-preserving refactorings.

Applies each benign/<id>/patch.diff to the scratch worktree (/var/tmp/fiddle-sens,
selected through FSIM_REPO) and runs EVERY registered quick check; any VIOLATION
or HARNESS-ERROR is a false alarm of the machinery (or the patch is not benign
after all - look at the replay before deciding).

usage: selftest/benign.py [--budget S] [substr ...]
"""
import glob, json, os, shutil, subprocess, sys, tempfile
VERIF = os.path.dirname(os.path.dirname(os.path.abspath(__file__)))
WT = '/var/tmp/fiddle-benign'
sys.path.insert(0, VERIF)
from fsim import registry


def sh(cmd, **kw):
  return subprocess.run(cmd, shell=True, capture_output=True, text=True, **kw)


def main():
  args = sys.argv[1:]
  budget = '20'
  if '--budget' in args:
    i = args.index('--budget'); budget = args[i + 1]; del args[i:i + 2]
  files = sorted(glob.glob(os.path.join(VERIF, 'benign', '*', 'patch.diff')))
  if args:
    files = [f for f in files if any(a in f for a in args)]
  if not os.path.isdir(WT):
    assert sh(f'git -C /repo worktree add -q --detach {WT} HEAD').returncode == 0
  sh(f'git -C {WT} checkout -q --detach $(git -C /repo rev-parse HEAD)')
  sh(f'git -C {WT} checkout -- .')
  keep = tempfile.mkdtemp(dir='/var/tmp')
  shutil.copytree(os.path.join(VERIF, 'evidence'), os.path.join(keep, 'evidence'))
  alarms = 0
  try:
    for f in files:
      name = os.path.basename(os.path.dirname(f))
      r = sh(f'git -C {WT} apply {f}')
      if r.returncode:
        print(name, 'PATCH-FAILED', r.stderr.strip()[:120]); continue
      try:
        row = []
        for prop in sorted(registry.CHECKS):
          r = sh(f'./check {prop} --budget {budget}', cwd=VERIF,
                 env=dict(os.environ, FSIM_REPO=WT))
          bad = [l for l in r.stdout.splitlines() if l.startswith(('VIOLATION', 'HARNESS-ERROR'))]
          if bad or r.returncode != 0:
            alarms += 1
            row.append(f'{prop}:ALARM')
            print(f'  {name} {prop}: ' + (bad[0] if bad else f'rc={r.returncode}')[:200])
            for l in r.stdout.splitlines():
              if l.startswith('  ') and len(row) < 40:
                print('    ' + l.strip()[:300]); break
          else:
            row.append(f'{prop}:ok')
        print(name, ' '.join(row))
      finally:
        sh(f'git -C {WT} checkout -- .')
  finally:
    shutil.rmtree(os.path.join(VERIF, 'evidence'), ignore_errors=True)
    shutil.copytree(os.path.join(keep, 'evidence'), os.path.join(VERIF, 'evidence'))
    shutil.rmtree(keep, ignore_errors=True)
  print(f'{len(files)} benign patches, {alarms} alarms')
  return 1 if alarms else 0


if __name__ == '__main__':
  sys.exit(main())
