#!/venv/bin/python
"""Determinism self-test.  For every registered check: the same VERIF_SEED
twice in separate invocations, at two worker counts, and once more under other
PYTHONHASHSEED values; per-run digests (interleaving digest, step count, model
state hashes, fault / probe counters, violation fingerprints) are compared.

usage: selftest/determinism.py [--count N] [PROP ...]
Writes selftest/determinism.json.
"""
import json, os, subprocess, sys
VERIF = os.path.dirname(os.path.dirname(os.path.abspath(__file__)))
sys.path.insert(0, VERIF)
from fsim import registry


def digests(prop, count, jobs, seed, shift=0):
  env = dict(os.environ, VERIF_SEED=str(seed))
  if shift:
    env['FSIM_HASHSEED_SHIFT'] = str(shift)
  else:
    env.pop('FSIM_HASHSEED_SHIFT', None)
  r = subprocess.run(['./check', prop, '--count', str(count), '--budget', '600',
                      '--jobs', str(jobs), '--digests'], cwd=VERIF, env=env,
                     capture_output=True, text=True)
  for line in r.stdout.splitlines():
    if line.startswith('DIGESTS '):
      return dict(map(tuple, json.loads(line[8:]))), r.returncode
  raise RuntimeError(prop + ': no digests\n' + r.stdout[-2000:] + r.stderr[-2000:])


def main():
  args = sys.argv[1:]
  count = 320
  if '--count' in args:
    i = args.index('--count'); count = int(args[i + 1]); del args[i:i + 2]
  props = args or sorted(registry.CHECKS)
  out, bad = {}, 0
  for prop in props:
    row = {}
    for seed in (11, 12):
      a, rc_a = digests(prop, count, 16, seed)
      b, rc_b = digests(prop, count, 5, seed)
      c, rc_c = digests(prop, count, 16, seed, shift=1)
      same_ab = sum(1 for k in a if a[k] == b.get(k))
      same_ac = sum(1 for k in a if a[k] == c.get(k))
      row[f'seed{seed}'] = {
          'runs': len(a), 'identical_rerun_other_worker_count': same_ab,
          'identical_under_other_hashseeds': same_ac,
          'exit_codes': [rc_a, rc_b, rc_c]}
      if same_ab != len(a) or len(a) != len(b):
        bad += 1
    out[prop] = row
    print(prop, json.dumps(row))
  json.dump(out, open(os.path.join(VERIF, 'selftest', 'determinism.json'), 'w'),
            indent=1, sort_keys=True)
  print('NON-DETERMINISTIC' if bad else 'deterministic: every run digest '
        'repeats across invocations and worker counts')
  return 1 if bad else 0


if __name__ == '__main__':
  sys.exit(main())
