#!/bin/bash
# No-false-alarm self-test: every registered check, several VERIF_SEED values,
# on the unchanged tree.  Prints one line per (property, seed); exit 1 if any
# check exits non-zero or prints VIOLATION / HARNESS-ERROR.
cd "$(dirname "$0")/.."
seeds="${SEEDS:-1 2 3 4 5}"
props="${PROPS:-$(/venv/bin/python -c "import sys; sys.path.insert(0,'.'); from fsim import registry; print(' '.join(sorted(registry.CHECKS)))")}"
tier="${TIER:-quick}"
bad=0
for s in $seeds; do
  for p in $props; do
    out=$(VERIF_SEED=$s ./check $p --tier $tier ${EXTRA:-} 2>&1); rc=$?
    line=$(echo "$out" | tail -1)
    if [ $rc -ne 0 ] || echo "$out" | grep -q "^VIOLATION\|^HARNESS-ERROR"; then
      bad=1; echo "ALARM seed=$s $p rc=$rc"; echo "$out" | grep "VIOLATION\|HARNESS" -A2 | head -8
    else
      echo "quiet seed=$s $line"
    fi
  done
done
exit $bad
