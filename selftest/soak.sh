#!/bin/bash
# Thorough tier of every registered check (or $PROPS), one after the other.
cd "$(dirname "$0")/.."
# under `vp run --with-repo` use the repository snapshot, not /repo itself
[ -n "$VP_RUN_REPO" ] && export FSIM_REPO="$VP_RUN_REPO"
props="${PROPS:-$(/venv/bin/python -c "import sys; sys.path.insert(0,'.'); from fsim import registry; print(' '.join(sorted(registry.CHECKS)))")}"
bad=0
for p in $props; do
  out=$(VERIF_SEED=${VERIF_SEED:-7} ./check $p --tier thorough ${EXTRA:-} 2>&1); rc=$?
  echo "$out" | grep "^VIOLATION\|^HARNESS-ERROR\|^KNOWN\|^NOTE" -A2
  echo "$out" | tail -1
  [ $rc -ne 0 ] && bad=1
done
exit $bad
