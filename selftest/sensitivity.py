#!/venv/bin/python
"""Applies each mutant patch to a scratch worktree of /repo (/var/tmp/fiddle-sens,
selected for the checks through FSIM_REPO, so /repo itself is never touched and
background runs are not disturbed), runs the quick check of the property named
by the file's prefix, reverts.  A mutant counts only if the
pinned pytest baseline still passes with it (--baseline to verify, slow).

usage: selftest/sensitivity.py [--baseline] [--budget S] [--props A,B] [name-substring ...]
"""
import glob, os, subprocess, sys, time, json

PROPS_OVERRIDE = None
VERIF = os.path.dirname(os.path.dirname(os.path.abspath(__file__)))
WT = '/var/tmp/fiddle-sens'


def sh(cmd, **kw):
  return subprocess.run(cmd, shell=True, capture_output=True, text=True, **kw)


def main():
  args = sys.argv[1:]
  baseline = '--baseline' in args
  budget = '25'
  if '--budget' in args:
    budget = args[args.index('--budget') + 1]
  global PROPS_OVERRIDE
  if '--props' in args:      # run these properties' checks instead of the filed one
    PROPS_OVERRIDE = args[args.index('--props') + 1].split(',')
    args.remove(','.join(PROPS_OVERRIDE))
  pats = [a for a in args if not a.startswith('--') and a != budget]
  dirs = [os.path.join(VERIF, 'selftest', 'mutants', '*.patch'),
          os.path.join(VERIF, 'seeded', '*', 'patch.diff')]
  files = sorted(f for d in dirs for f in glob.glob(d))
  if pats:
    files = [f for f in files if any(p in f for p in pats)]
  if not os.path.isdir(WT):
    r = sh(f'git -C /repo worktree add -q --detach {WT} HEAD')
    assert r.returncode == 0, r.stderr
  sh(f'git -C {WT} checkout -q --detach $(git -C /repo rev-parse HEAD)')
  sh(f'git -C {WT} checkout -- .')
  assert sh(f'git -C {WT} status --porcelain').stdout.strip() == '', 'scratch worktree dirty'
  rows = []
  # evidence files are rewritten by every check run; runs against mutants must
  # not leave theirs behind
  import shutil, tempfile
  keep = tempfile.mkdtemp(dir='/var/tmp')
  shutil.copytree(os.path.join(VERIF, 'evidence'), os.path.join(keep, 'evidence'))
  try:
    _run_all(files, budget, baseline, rows)
  finally:
    shutil.rmtree(os.path.join(VERIF, 'evidence'), ignore_errors=True)
    shutil.copytree(os.path.join(keep, 'evidence'), os.path.join(VERIF, 'evidence'))
    shutil.rmtree(keep, ignore_errors=True)
  for row in rows:
    print(' | '.join(str(x) for x in row))
  missed = [r for r in rows if 'MISSED' in r or 'HARNESS-ERROR' in r or 'PATCH-FAILED' in r]
  print(f'{len(rows)} rows, {len(missed)} missed/errors')


def _run_all(files, budget, baseline, rows):
  for f in files:
    if f.endswith('patch.diff'):
      meta = json.load(open(os.path.join(os.path.dirname(f), 'meta.json')))
      props = meta['property'] if isinstance(meta['property'], list) else [meta['property']]
      # 'checked_by': the change breaks its property only under conditions that
      # ANOTHER claimed property quantifies over (e.g. two threads): that check
      # is the one expected to see it
      props = meta.get('checked_by', props)
      name = 'seeded/' + os.path.basename(os.path.dirname(f))
      if meta.get('not_caught'):
        rows.append((name, '/'.join(props), 'KNOWN-MISS', meta['not_caught'][:120]))
        continue
      if meta.get('out_of_scope') or meta.get('obsolete'):
        rows.append((name, '/'.join(props), 'NOT-RUN',
                     (meta.get('out_of_scope') or meta.get('obsolete'))[:120]))
        continue
    else:
      name = os.path.basename(f)[:-6]
      props = name.split('-')[0].split('+')
    if PROPS_OVERRIDE:
      props = PROPS_OVERRIDE
    r = sh(f'git -C {WT} apply {f}')
    if r.returncode:
      rows.append((name, 'PATCH-FAILED', r.stderr.strip()[:100]))
      continue
    try:
      for prop in props:
        t = time.time()
        b_ = max(int(budget), int(meta.get('budget', 0))) if f.endswith('patch.diff') else budget
        r = sh(f'./check {prop} --budget {b_}' + (' --count 100000' if f.endswith('patch.diff') and meta.get('budget') else ''), cwd=VERIF, env=dict(os.environ, FSIM_REPO=WT))
        caught = 'VIOLATION property=' + prop in r.stdout
        status = 'caught' if caught else ('HARNESS-ERROR' if r.returncode == 2 else 'MISSED')
        first = next((l for l in r.stdout.splitlines() if l.startswith(('VIOLATION', 'HARNESS'))), '')
        rows.append((name, prop, status, f'{time.time() - t:.0f}s', first[:110]))
      if baseline:
        r = sh(os.path.join(VERIF, 'tools', 'baseline_check.py') + ' ' + WT)
        rows.append((name, 'baseline', 'passes' if r.returncode == 0 else 'FAILS: ' + r.stdout.strip()[-200:]))
    finally:
      sh(f'git -C {WT} checkout -- .')


if __name__ == '__main__':
  main()
